"""C14 — constraints mean what set theory says and cannot be bypassed (DESIGN §5 C14).

Layers, in this order:
  corpus          minimized witnesses of the defects repaired in /repo (a revert is caught here first)
  audit           AST check tying `scalar_ops_checked`: the only store to `._value` is in
                  SimpleAsn1Type.__init__ after `self.subtypeSpec(value)`; every operator method of the
                  scalar types returns through `self.clone(...)`
  CONSTR          random expression trees (depth <= 4) built BOTH as pyasn1 objects and as model
                  s-expressions; candidate values around every boundary in the tree; pyasn1 `c(value)`
                  vs the Lean model (`CONSTR_EVAL`) vs an independent set-theoretic evaluator (`member`)
  SUPER / CHAIN   derivation chains T0 -> subtype -> subtype ... (kwarg / class-level / bare class-level
                  subtypeSpec; no / explicit / implicit tags): structure of the derived constraint set vs
                  the model's `derive`, `isSuperTypeOf` vs `CONSTR_SUPER`, admitted values shrink, a child
                  value can be assigned to a SEQUENCE field / SEQUENCE OF element declared with any ancestor
  SCALAR          value-producing operations on constrained Integer / OctetString / BitString / character
                  strings with boundary operands, and decoding (ber/cer/der): whatever object comes back
                  carries the type's constraint and a value the independent evaluator admits
  GATE            ber/cer/der encoders on SequenceOf/SetOf/Sequence/Set values against size / WITH COMPONENTS
                  constraints: refused iff outside the denotation (model: `CONSTR_GATE`)
"""
import ast
import json
import math
import os

from harness import common
from pyasn1 import error
from pyasn1.type import univ, char, constraint as C, namedtype, tag, base
from pyasn1.codec.ber import encoder as ber_enc, decoder as ber_dec
from pyasn1.codec.cer import encoder as cer_enc, decoder as cer_dec
from pyasn1.codec.der import encoder as der_enc, decoder as der_dec

# ------------------------------------------------------------------------------ expressions
# constraint: (cls, [operands]); operand: constraint | atom | ('f', name, constraint) | ('e', idx, constraint, absent)
# atom: ('i', n) | ('s', (codes)) | ('b', (codes)) | ('none',)
# value: atom | ('coll', [atoms]) | ('rec', [(name, atom)])

CLASSES = {'sv': C.SingleValueConstraint, 'cs': C.ContainedSubtypeConstraint, 'vr': C.ValueRangeConstraint,
           'vs': C.ValueSizeConstraint, 'pa': C.PermittedAlphabetConstraint, 'present': C.ComponentPresentConstraint,
           'absent': C.ComponentAbsentConstraint, 'wc': C.WithComponentsConstraint, 'it': C.InnerTypeConstraint,
           'ex': C.ConstraintsExclusion, 'and': C.ConstraintsIntersection, 'or': C.ConstraintsUnion}
NAME_OF = dict((v, k) for k, v in CLASSES.items())
ATOM_TAGS = ('i', 's', 'b', 'none')


def is_atom(x):
    return isinstance(x, tuple) and x and x[0] in ATOM_TAGS


def is_constr(x):
    return isinstance(x, tuple) and x and x[0] in CLASSES


def codes(cs):
    return '.'.join(str(c) for c in cs) if cs else '-'


def atom_sexp(a):
    if a[0] == 'i':
        return '(i %d)' % a[1]
    if a[0] == 'none':
        return 'none'
    return '(%s %s)' % (a[0], codes(a[1]))


def op_sexp(o):
    if is_atom(o):
        return atom_sexp(o)
    if o[0] == 'f':
        return '(f %s %s)' % (o[1], sexp(o[2]))
    if o[0] == 'e':
        return '(e %d %s %d)' % (o[1], sexp(o[2]), 1 if o[3] else 0)
    return sexp(o)


def sexp(c):
    return '(' + ' '.join([c[0]] + [op_sexp(o) for o in c[1]]) + ')'


def val_sexp(v):
    if v[0] == 'coll':
        return '(' + ' '.join(['coll'] + [atom_sexp(a) for a in v[1]]) + ')'
    if v[0] == 'rec':
        return '(' + ' '.join(['rec'] + ['(%s %s)' % (n, atom_sexp(a)) for n, a in v[1]]) + ')'
    return atom_sexp(v)


def atom_py(a):
    if a[0] == 'i':
        return a[1]
    if a[0] == 's':
        return ''.join(chr(c) for c in a[1])
    if a[0] == 'b':
        return bytes(a[1])
    return None


def val_py(v):
    if v[0] == 'coll':
        return dict((i, atom_py(a)) for i, a in enumerate(v[1]))
    if v[0] == 'rec':
        return dict((n, atom_py(a)) for n, a in v[1])
    return atom_py(v)


def py_atom(x):
    if x is None:
        return ('none',)
    if isinstance(x, bool):
        raise ValueError('bool operand')
    if isinstance(x, int):
        return ('i', int(x))
    if isinstance(x, str):
        return ('s', tuple(ord(c) for c in x))
    if isinstance(x, bytes):
        return ('b', tuple(x))
    raise ValueError('not an atom: %r' % (x,))


def op_py(o):
    if is_atom(o):
        return atom_py(o)
    if o[0] == 'f':
        return (o[1], build(o[2]))
    if o[0] == 'e':
        return (o[1], build(o[2]), 'ABSENT' if o[3] else 'PRESENT')
    return build(o)


def build(c):
    """the pyasn1 constraint object"""
    return CLASSES[c[0]](*[op_py(o) for o in c[1]])


def unbuild(obj):
    """pyasn1 constraint object -> expression (reads `_values`, which is what `==`/`hash` see)"""
    name = NAME_OF[type(obj)]
    if name in ('present', 'absent'):
        return (name, [])
    ops = []
    for v in obj._values:
        if isinstance(v, C.AbstractConstraint):
            ops.append(unbuild(v))
        elif isinstance(v, tuple) and len(v) == 2 and isinstance(v[1], C.AbstractConstraint):
            ops.append(('f', v[0], unbuild(v[1])))
        elif isinstance(v, tuple) and len(v) == 3 and isinstance(v[1], C.AbstractConstraint):
            ops.append(('e', v[0], unbuild(v[1]), v[2] == 'ABSENT'))
        else:
            ops.append(py_atom(v))
    return (name, ops)


def derive(parent, extra):
    """mirror of the model's `derive` (subtypeSpec + extra as subtype() computes it)"""
    if parent[0] == 'and':
        return ('and', list(parent[1]) + [extra])
    return ('and', [parent, extra])


def depth(c):
    d = 0
    for o in c[1]:
        if is_constr(o):
            d = max(d, depth(o))
        elif not is_atom(o):
            d = max(d, depth(o[2]))
    return d + 1


# ------------------------------------------------------------------------------ independent evaluator
# Written from the meaning of the constraint notation, not from constraint.py: Python sets, all/any/not.
# `applicable` is the property's domain (a range is asked of an integer, a size of something sized, ...).

def kind(v):
    return v[0] if v[0] in ('coll', 'rec') else {'i': 'int', 's': 'str', 'b': 'bytes', 'none': 'none'}[v[0]]


def plain(c):
    return [o for o in c[1] if is_atom(o)]


def nested(c):
    return [o for o in c[1] if is_constr(o)]


def field_value(v, name):
    if v[0] == 'rec':
        return dict(v[1]).get(name, ('none',))
    return ('none',)          # a SEQUENCE OF has no named components


def applicable(c, v):
    k, ops = c[0], c[1]
    if k in ('present', 'absent'):
        return True
    if not ops:
        return True
    if k == 'sv':
        return kind(v) in ('int', 'str', 'bytes', 'none')
    if k == 'vr':
        return kind(v) == 'int'
    if k == 'vs':
        return kind(v) in ('str', 'bytes', 'coll', 'rec')
    if k == 'pa':
        return kind(v) in ('str', 'bytes', 'coll', 'rec')
    if k == 'wc':
        return kind(v) in ('coll', 'rec') and all(applicable(o[2], field_value(v, o[1])) for o in ops)
    if k == 'cs':
        return all(applicable(o, v) for o in nested(c)) and (not plain(c) or kind(v) in ('int', 'str', 'bytes', 'none'))
    if k == 'it':
        return all(applicable(o if is_constr(o) else o[2], v) for o in ops)
    return all(applicable(o, v) for o in ops)


def elements(v):
    if v[0] == 's':
        return set(('s', (ch,)) for ch in v[1])
    if v[0] == 'b':
        return set(('i', b) for b in v[1])
    if v[0] == 'coll':
        return set(('i', i) for i in range(len(v[1])))
    return set(('s', tuple(ord(ch) for ch in n)) for n, _ in v[1])


def size(v):
    return len(v[1])


def member(c, v, idx=None):
    """is v in the set the expression denotes?  (only meaningful where `applicable`)"""
    k, ops = c[0], c[1]
    if k == 'present':
        return v != ('none',)
    if k == 'absent':
        return v == ('none',)
    if not ops:
        return True                       # no operands: unconstrained
    if k == 'sv':
        return v in set(ops)
    if k == 'vr':
        return ops[0][1] <= v[1] <= ops[1][1]
    if k == 'vs':
        return ops[0][1] <= size(v) <= ops[1][1]
    if k == 'pa':
        return elements(v) <= set(ops)
    if k == 'and':
        return all(member(o, v, idx) for o in ops)
    if k == 'or':
        return any(member(o, v, idx) for o in ops)
    if k == 'ex':
        return not any(member(o, v, idx) for o in ops)
    if k == 'cs':
        return all(member(o, v, idx) for o in nested(c)) and (not plain(c) or v in set(plain(c)))
    if k == 'wc':
        return all(member(o[2], field_value(v, o[1])) for o in ops)
    if k == 'it':
        single = nested(c)
        if single and single[-1][0] in ('present', 'absent') or single and single[-1][1]:
            return member(single[-1], v)
        table = {}
        for o in ops:
            if not is_constr(o):
                table[o[1]] = o
        if not table:
            return True
        if idx not in table or table[idx][3]:
            return False
        return member(table[idx][2], v)
    raise ValueError(k)


# ------------------------------------------------------------------------------ generator

INTS = [-129, -128, -3, -1, 0, 1, 2, 3, 5, 7, 10, 11, 20, 127, 128, 255, 256, 65535]
NAMES = ['a', 'b', 'c']
ALPHA = [ord(x) for x in 'ABTFab01 ']
OUTSIDE = ord('~')
FAMILIES = ['int', 'bytes', 'str', 'coll', 'rec']


class Gen(object):
    def __init__(self, rng):
        self.r = rng

    def ints(self, n):
        return [self.r.choice(INTS) if self.r.random() < 0.8 else self.r.randrange(-300, 300) for _ in range(n)]

    def string(self, fam, n=None, alphabet=None):
        n = self.r.randrange(0, 5) if n is None else n
        alphabet = alphabet or ALPHA
        cs = tuple(self.r.choice(alphabet) for _ in range(n))
        return ('b' if fam == 'bytes' else 's', cs)

    def rng_pair(self, lo_min, pool):
        a, b = self.r.choice(pool), self.r.choice(pool)
        lo, hi = min(a, b), max(a, b)
        return max(lo, lo_min), max(hi, lo_min)

    def leaf(self, fam, d):
        r = self.r
        if fam == 'int':
            if r.random() < 0.5:
                lo, hi = self.rng_pair(-10 ** 9, INTS)
                return ('vr', [('i', lo), ('i', hi)])
            return ('sv', [('i', x) for x in self.ints(r.choice([0, 1, 1, 2, 3, 4]))])
        if fam in ('bytes', 'str'):
            x = r.random()
            if x < 0.4:
                lo, hi = self.rng_pair(0, [0, 1, 2, 3, 4, 5])
                return ('vs', [('i', lo), ('i', hi)])
            if x < 0.75:
                n = r.choice([0, 1, 2, 3, 5])
                pool = r.sample(ALPHA, n)
                return ('pa', [(('i', ch) if fam == 'bytes' else ('s', (ch,))) for ch in pool])
            return ('sv', [self.string(fam) for _ in range(r.choice([0, 1, 2, 3]))])
        if fam == 'coll':
            x = r.random()
            if x < 0.8:
                lo, hi = self.rng_pair(0, [0, 1, 2, 3, 4])
                return ('vs', [('i', lo), ('i', hi)])
            if x < 0.9:
                return ('wc', [('f', r.choice(NAMES), (r.choice(['present', 'absent']), []))])
            return (r.choice(['present', 'absent']), [])
        # rec
        x = r.random()
        if x < 0.75:
            fields = []
            for name in r.sample(NAMES, r.choice([0, 1, 2, 2, 3])):
                y = r.random()
                if y < 0.4:
                    sub = ('present', [])
                elif y < 0.7:
                    sub = ('absent', [])
                elif d > 1:
                    sub = self.expr('int', d - 1)
                    if r.random() < 0.5:
                        sub = ('and', [('present', []), sub])
                else:
                    sub = ('present', [])
                fields.append(('f', name, sub))
            return ('wc', fields)
        lo, hi = self.rng_pair(0, [0, 1, 2, 3])
        return ('vs', [('i', lo), ('i', hi)])

    def expr(self, fam, d):
        r = self.r
        if d <= 1 or r.random() < 0.15:
            return self.leaf(fam, d)
        x = r.random()
        n = r.choice([0, 1, 2, 2, 3])
        if x < 0.3:
            return ('and', [self.expr(fam, d - 1) for _ in range(n)])
        if x < 0.6:
            return ('or', [self.expr(fam, d - 1) for _ in range(n)])
        if x < 0.8:
            return ('ex', [self.expr(fam, d - 1) for _ in range(r.choice([0, 1, 1, 2]))])
        if x < 0.9:
            ops = [self.expr(fam, d - 1) for _ in range(r.choice([0, 1, 2]))]
            if fam in ('int', 'bytes', 'str'):
                for _ in range(r.choice([0, 1, 2])):
                    a = ('i', r.choice(INTS)) if fam == 'int' else self.string(fam)
                    ops.insert(r.randrange(len(ops) + 1), a)
            return ('cs', ops)
        if r.random() < 0.5:
            return ('it', [self.expr(fam, d - 1) for _ in range(r.choice([1, 1, 2]))])
        return ('it', [('e', r.randrange(3), self.expr(fam, d - 1), r.random() < 0.25) for _ in range(r.choice([1, 2, 3]))])

    # candidate values around every boundary mentioned in the tree
    def mentioned(self, c, out):
        k = c[0]
        for o in c[1]:
            if is_atom(o):
                out.setdefault(k, []).append(o)
            elif is_constr(o):
                self.mentioned(o, out)
            else:
                self.mentioned(o[2], out)
        return out

    def candidates(self, c, fam, limit):
        r = self.r
        m = self.mentioned(c, {})
        out = []
        if fam == 'int':
            for a in m.get('vr', []) + m.get('sv', []) + m.get('cs', []):
                if a[0] == 'i':
                    out += [('i', a[1] - 1), a, ('i', a[1] + 1)]
            out += [('i', 0), ('i', r.choice(INTS))]
        elif fam in ('bytes', 'str'):
            tagc = 'b' if fam == 'bytes' else 's'
            sizes = sorted(set([0, 1] + [max(0, a[1] + dlt) for a in m.get('vs', []) for dlt in (-1, 0, 1)]))
            alpha = [a[1] if a[0] == 'i' else a[1][0] for a in m.get('pa', []) if a[0] == 'i' or (a[0] == 's' and len(a[1]) == 1)]
            lits = [a for a in m.get('sv', []) + m.get('cs', []) if a[0] == tagc]
            out += lits
            for lit in lits:
                out.append((tagc, lit[1] + (OUTSIDE,)))
                out.append((tagc, lit[1][:-1]))
            for n in sizes:
                out.append(self.string(fam, n, alpha or None))
                if n:
                    s = self.string(fam, n, alpha or None)
                    pos = r.randrange(n)
                    out.append((tagc, s[1][:pos] + (OUTSIDE,) + s[1][pos + 1:]))
                    out.append(self.string(fam, n))
        elif fam == 'coll':
            sizes = sorted(set([0, 1] + [max(0, a[1] + dlt) for a in m.get('vs', []) for dlt in (-1, 0, 1)]))
            for n in sizes:
                out.append(('coll', [('i', x) for x in self.ints(n)]))
        else:
            ints = [a[1] + dlt for a in m.get('vr', []) + m.get('sv', []) if a[0] == 'i' for dlt in (-1, 0, 1)] or [0, 1]
            for mask in range(8):
                names = [n for i, n in enumerate(NAMES) if mask >> i & 1]
                out.append(('rec', [(n, ('i', r.choice(ints))) for n in names]))
                if names and r.random() < 0.5:
                    out.append(('rec', [(n, ('i', r.choice(ints))) for n in names]))
        seen, uniq = set(), []
        for v in out:
            key = val_sexp(v)
            if key not in seen:
                seen.add(key)
                uniq.append(v)
        if len(uniq) > limit:
            uniq = r.sample(uniq, limit)
        return uniq

    def foreign(self, fam):
        """a value of another kind (ill-typed application: the model must predict the leak)"""
        r = self.r
        other = r.choice([f for f in FAMILIES + ['none'] if f != fam])
        if other == 'none':
            return ('none',)
        if other == 'int':
            return ('i', r.choice(INTS))
        if other in ('bytes', 'str'):
            return self.string(other)
        if other == 'coll':
            return ('coll', [('i', x) for x in self.ints(r.choice([0, 1, 2]))])
        return ('rec', [(n, ('i', r.choice(INTS))) for n in r.sample(NAMES, r.choice([0, 1, 2]))])


# ------------------------------------------------------------------------------ op CONSTR

def impl_eval(obj, pv, idx=None):
    try:
        if idx is None:
            obj(pv)
        else:
            obj(pv, idx)
        return 'accept'
    except error.PyAsn1Error:
        return 'reject'
    except Exception as e:  # noqa
        return 'leak:' + type(e).__name__


def cls_sig(c):
    """structural class of an expression for signatures: the classes it uses"""
    names = set()

    def walk(x):
        names.add(x[0])
        for o in x[1]:
            if is_constr(o):
                walk(o)
            elif not is_atom(o):
                walk(o[2])
    walk(c)
    return '+'.join(sorted(names))


def check_eval(rep, drv, c, v, idx=None, obj=None):
    """one (expression, value) pair: code vs model vs independent evaluator"""
    case = {'kind': 'eval', 'constraint': sexp(c), 'value': val_sexp(v), 'idx': idx}
    if obj is None:
        try:
            obj = build(c)
        except Exception as e:  # noqa
            rep.fail('construct-' + type(e).__name__ + ':' + cls_sig(c), 'cannot construct a documented constraint: %s' % e, case)
            return None
    got = impl_eval(obj, val_py(v), idx)
    ans = drv.ask('CONSTR_EVAL %s %s%s' % (sexp(c), val_sexp(v), '' if idx is None else ' %d' % idx))
    rep.corr_checked += 1
    parts = ans.split()
    model = parts[1] if parts and parts[0] == 'ok' else ans
    typed = len(parts) > 2 and parts[2] == '1'
    app = applicable(c, v)
    if model != got.split(':')[0]:
        rep.disagree('CONSTR_EVAL', case, ans, got)
    if typed != app:
        rep.disagree('CONSTR_TYPED', case, ans, 'applicable=%s' % app)
    if app:
        want = 'accept' if member(c, v, idx) else 'reject'
        if got.startswith('leak'):
            rep.fail('leak-on-applicable:%s:%s' % (got[5:], cls_sig(c)),
                     'constraint applied to a value of its own kind raised %s' % got[5:], case)
        elif got != want:
            rep.fail('denotation-mismatch:' + cls_sig(c),
                     'pyasn1 says %s, the set-theoretic denotation says %s' % (got, want), case)
    rep.count('eval=' + got.split(':')[0])
    return got


def op_constr(rep, drv, rng, n_trees, per_tree):
    g = Gen(rng)
    for t in range(n_trees):
        fam = rng.choice(FAMILIES)
        d = rng.choice([1, 2, 3, 3, 4, 4, 4])
        c = g.expr(fam, d)
        try:
            obj = build(c)
        except Exception as e:  # noqa
            rep.fail('construct-' + type(e).__name__ + ':' + cls_sig(c), 'cannot construct: %s' % e, {'kind': 'eval', 'constraint': sexp(c)})
            continue
        rep.count('family=' + fam)
        rep.count('depth=%d' % depth(c))
        vals = g.candidates(c, fam, per_tree)
        if rng.random() < 0.15:
            vals = vals + [g.foreign(fam) for _ in range(2)]
        uses_idx = 'it' in cls_sig(c)
        for v in vals:
            idx = rng.choice([None, 0, 1, 2, 3]) if uses_idx else None
            rep.case('%s %s %s' % (sexp(c), val_sexp(v), idx), nontrivial=depth(c) >= 2,
                     sample={'constraint': sexp(c), 'value': val_sexp(v)})
            check_eval(rep, drv, c, v, idx, obj)
    # what cannot be constructed: the model's wf vs the constructors
    for c, why in [(('vr', [('i', 3), ('i', 2)]), 'start > stop'), (('vs', [('i', 1)]), 'one bound'),
                   (('vr', [('i', 1), ('i', 2), ('i', 3)]), 'three bounds'), (('present', [('i', 1)]), 'argument given')]:
        try:
            build(c)
            got = 'constructed'
        except error.PyAsn1Error:
            got = 'err construct'
        except Exception as e:  # noqa
            got = 'leak:' + type(e).__name__
        ans = drv.ask('CONSTR_EVAL %s (i 0)' % sexp(c))
        rep.corr_checked += 1
        if ans != got:
            rep.disagree('CONSTR_WF', sexp(c), ans, got)


# ------------------------------------------------------------------------------ op SUPER / CHAIN

def rec_schema(cls=univ.Sequence, **kw):
    return cls(componentType=namedtype.NamedTypes(*[namedtype.OptionalNamedType(n, univ.Integer()) for n in NAMES]), **kw)


def base_type(fam, rng):
    if fam == 'int':
        return univ.Integer
    if fam == 'bytes':
        return univ.OctetString
    if fam == 'str':
        return rng.choice([char.IA5String, char.UTF8String, char.PrintableString])
    if fam == 'coll':
        k = rng.choice([univ.SequenceOf, univ.SetOf])
        return lambda **kw: k(componentType=univ.Integer(), **kw)
    k = rng.choice([univ.Sequence, univ.Set])
    return lambda **kw: rec_schema(k, **kw)


def make_t0(fam, c0, style, rng):
    """(type object, expression of its subtypeSpec)"""
    bt = base_type(fam, rng)
    if style == 'none' or c0 is None:
        return bt(), ('and', [])
    if style == 'kwarg':
        return bt(subtypeSpec=build(c0)), c0
    if style == 'subtype':
        return bt().subtype(subtypeSpec=build(c0)), derive(('and', []), c0)
    proto = bt()
    klass = type(proto)
    attrs = {'subtypeSpec': build(c0) if style == 'class' else klass.subtypeSpec + build(c0)}
    if fam in ('coll', 'rec'):
        attrs['componentType'] = proto.componentType
    sub = type('Derived' + klass.__name__, (klass,), attrs)
    return sub(), (c0 if style == 'class' else derive(('and', []), c0))


def value_object(fam, ty, v):
    """a value object of type `ty` holding v (raises what pyasn1 raises)"""
    if fam in ('int', 'bytes', 'str'):
        return ty.clone(atom_py(v))
    obj = ty.clone()
    obj.clear()
    if fam == 'coll':
        for i, a in enumerate(v[1]):
            obj.setComponentByPosition(i, atom_py(a))
    else:
        for n, a in v[1]:
            obj.setComponentByName(n, atom_py(a))
    return obj


def admits(fam, ty, v):
    """does the type admit v: scalars at construction, constructed values at the consistency gate"""
    try:
        obj = value_object(fam, ty, v)
        if fam in ('coll', 'rec'):
            inc = obj.isInconsistent
            if inc:
                return 'reject'
        return 'accept'
    except error.PyAsn1Error:
        return 'reject'
    except Exception as e:  # noqa
        return 'leak:' + type(e).__name__


def holders_for(ty):
    """containers with a member of type `ty` named 'x' (records also in the shape with an open-type field elsewhere)"""
    from pyasn1.type import opentype
    ot = opentype.OpenType('gov', {1: univ.Integer(), 2: univ.OctetString()})
    nt = namedtype.NamedType
    plain = namedtype.NamedTypes(nt('gov', univ.Integer()), nt('x', ty))
    withopen = namedtype.NamedTypes(nt('gov', univ.Integer()), nt('x', ty), nt('blob', univ.Any(), openType=ot))
    withopen_first = namedtype.NamedTypes(nt('x', ty), nt('gov', univ.Integer()), nt('blob', univ.Any(), openType=ot))
    return [('seq', univ.Sequence(componentType=plain), 'name'),
            ('set', univ.Set(componentType=plain), 'name'),
            ('seq+opentype', univ.Sequence(componentType=withopen), 'name'),
            ('set+opentype', univ.Set(componentType=withopen), 'name'),
            ('seq+opentype-first', univ.Sequence(componentType=withopen_first), 'name'),
            ('choice', univ.Choice(componentType=namedtype.NamedTypes(nt('gov', univ.Integer()), nt('x', ty))), 'name'),
            ('seqof', univ.SequenceOf(componentType=ty), 'pos'),
            ('setof', univ.SetOf(componentType=ty), 'pos')]


def foreign_sources(fam, types, i, j):
    """types whose value objects may hold a value that type j rejects: the ancestor, the unconstrained base type,
    the complement of type j (ALL EXCEPT its constraint), a sibling that re-derives the ancestor with the complement,
    a union of type j's constraint with 'anything'"""
    out = [('ancestor', types[i])]
    base = type(types[0])
    try:
        out.append(('base', base()))
    except Exception:  # noqa
        pass
    spec_j = types[j].subtypeSpec
    for nm, mk in (('complement', lambda: base().subtype(subtypeSpec=C.ConstraintsExclusion(spec_j))),
                   ('complement-of-ancestor', lambda: types[i].subtype(subtypeSpec=C.ConstraintsExclusion(spec_j))),
                   ('union-with-all', lambda: base().subtype(subtypeSpec=C.ConstraintsUnion(spec_j, C.ConstraintsIntersection()))),
                   ('exclusion-kwarg', lambda: base(subtypeSpec=C.ConstraintsExclusion(spec_j)))):
        try:
            out.append((nm, mk()))
        except Exception:  # noqa
            pass
    return out


def check_foreign_assignment(rep, fam, types, exprs, i, j, v, case):
    """value objects of other types holding v, which type j rejects, must not be stored where type j is expected"""
    for src_name, src in foreign_sources(fam, types, i, j):
        try:
            vobj = value_object(fam, src, v)
        except Exception:  # noqa
            continue
        _check_foreign_assignment(rep, fam, types, exprs, i, j, v, dict(case, source=src_name), vobj)


def _check_foreign_assignment(rep, fam, types, exprs, i, j, v, case, vobj):
    for name, holder, how in holders_for(types[j]):
        rep.count('foreign-assignments')
        apis = (['byname', 'setitem', 'bypos'] if how == 'name' else ['bypos', 'append'])
        for api in apis:
            h = holder.clone()
            try:
                if api == 'byname':
                    h.setComponentByName('x', vobj)
                elif api == 'setitem':
                    h['x'] = vobj
                elif api == 'append':
                    h.append(vobj)
                else:
                    h.setComponentByPosition(h.componentType.getPositionByName('x') if how == 'name' else 0, vobj)
            except error.PyAsn1Error:
                continue
            except (KeyError, IndexError):
                if api in ('setitem', 'append'):     # the dict / list protocol reports the refusal this way
                    continue
                raise
            except Exception as ex:  # noqa
                rep.fail('foreign-assign-leak-' + type(ex).__name__, '%s via %s raised %s' % (name, api, ex),
                         dict(case, i=i, j=j, holder=name, api=api, value=val_sexp(v)))
                continue
            rep.fail('assignment-bypasses-constraint:%s:%s' % (case.get('source'), name),
                     'a value object (%s type) holding %s was stored via %s where type %d (which '
                     'rejects that value) is expected' % (case.get('source'), val_sexp(v), api, j),
                     dict(case, i=i, j=j, holder=name, api=api, value=val_sexp(v)))


def model_super(rep, drv, p, q, code_sup, code_sub, code_eq, what):
    ans = drv.ask('CONSTR_SUPER %s %s' % (sexp(p), sexp(q)))
    rep.corr_checked += 1
    want = 'ok %d %d %d' % (bool(code_sup), bool(code_sub), bool(code_eq))
    if ans != want:
        rep.disagree('CONSTR_SUPER', {'kind': 'super', 'where': what, 'parent': sexp(p), 'child': sexp(q)}, ans, want)


def check_chain(rep, drv, rng, fam, c0, style, steps):
    """steps: [(extra expression, tagging)] with tagging in (None, ('e', n), ('i', n))"""
    case = {'kind': 'chain', 'family': fam, 'style': style, 't0': sexp(c0) if c0 else None,
            'steps': [[sexp(e), list(t) if t else None] for e, t in steps]}
    g = Gen(rng)
    try:
        t0, e0 = make_t0(fam, c0, style, rng)
    except Exception as ex:  # noqa
        rep.fail('chain-t0-' + type(ex).__name__, 'cannot declare the type: %s' % ex, case)
        return
    types, exprs, implicit_at = [t0], [e0], []
    for j, (extra, tg) in enumerate(steps):
        kw = {'subtypeSpec': build(extra)}
        if tg:
            kw['explicitTag' if tg[0] == 'e' else 'implicitTag'] = tag.Tag(tag.tagClassContext, tag.tagFormatSimple, tg[1])
        try:
            child = types[-1].subtype(**kw)
        except Exception as ex:  # noqa
            rep.fail('subtype-raises-%s:%s' % (type(ex).__name__, exprs[-1][0]),
                     'subtype(subtypeSpec=...) raised %s: %s' % (type(ex).__name__, ex), case)
            return
        want = derive(exprs[-1], extra)
        ans = drv.ask('CONSTR_DERIVE_EQ %s %s %s' % (sexp(exprs[-1]), sexp(extra), sexp(want)))
        rep.corr_checked += 1
        if ans != 'ok 1':
            rep.disagree('CONSTR_DERIVE_EQ', case, ans, sexp(want))
        try:
            got = unbuild(child.subtypeSpec)
        except Exception as ex:  # noqa
            got = 'unbuild: %s' % ex
        rep.corr_checked += 1
        if got != want:
            rep.disagree('DERIVE-structure', case, sexp(want), sexp(got) if isinstance(got, tuple) else got)
        types.append(child)
        exprs.append(want)
        if tg and tg[0] == 'i':
            implicit_at.append(j + 1)
    k = len(types) - 1
    rep.count('chain-len=%d' % k)
    rep.count('chain-style=' + style)
    # recognition by every ancestor
    for i in range(k + 1):
        for j in range(i, k + 1):
            sup = types[i].subtypeSpec.isSuperTypeOf(types[j].subtypeSpec)
            sub = types[j].subtypeSpec.isSubTypeOf(types[i].subtypeSpec)
            eq = types[i].subtypeSpec == types[j].subtypeSpec
            model_super(rep, drv, exprs[i], exprs[j], sup, sub, eq, 'chain')
            if not sup:
                rep.fail('T6-derived-not-recognised:' + exprs[i][0],
                         'ancestor %d does not recognise descendant %d as a subtype' % (i, j), dict(case, i=i, j=j))
            tags_ok = not [p for p in implicit_at if i < p <= j]
            if tags_ok and not types[i].isSuperTypeOf(types[j]):
                rep.fail('T6-derived-not-recognised:' + exprs[i][0],
                         'type %d .isSuperTypeOf(type %d) is False' % (i, j), dict(case, i=i, j=j))
            if j > i:
                back = types[j].subtypeSpec.isSuperTypeOf(types[i].subtypeSpec)
                model_super(rep, drv, exprs[j], exprs[i], back, types[i].subtypeSpec.isSubTypeOf(types[j].subtypeSpec),
                            types[j].subtypeSpec == types[i].subtypeSpec, 'chain-back')
    # history: keyword clones of the types of the chain (a widened sibling, a re-tagged sibling) must leave the types
    # themselves alone: what they admit below is compared with the denotation of the declared expression
    for t_ in types:
        for kw in ({'subtypeSpec': C.ConstraintsIntersection()},
                   {'tagSet': tag.initTagSet(tag.Tag(tag.tagClassPrivate, tag.tagFormatSimple, 77))}):
            try:
                t_.clone(**kw)
            except Exception:  # noqa
                pass
    # admitted values shrink along the chain, and are what the denotation says
    vals = g.candidates(exprs[k], fam, 10)
    admitted = None
    for v in vals:
        rep.case('chain %s %s' % (sexp(exprs[k]), val_sexp(v)), nontrivial=True)
        acc = [admits(fam, t, v) for t in types]
        for j in range(k + 1):
            if not applicable(exprs[j], v):
                continue
            want = 'accept' if member(exprs[j], v) else 'reject'
            if acc[j] != want:
                sig = 'leak-on-applicable:%s' % acc[j][5:] if acc[j].startswith('leak') else 'subtype-admits-other-set'
                rep.fail('%s:%s' % (sig, cls_sig(exprs[j])), 'type %d: pyasn1 %s, denotation %s' % (j, acc[j], want),
                         dict(case, value=val_sexp(v), j=j))
        for j in range(1, k + 1):
            if acc[j] == 'accept' and acc[j - 1] != 'accept' and applicable(exprs[j - 1], v):
                rep.fail('subtype-admits-more:' + exprs[j - 1][0], 'derived type %d admits a value its parent rejects' % j,
                         dict(case, value=val_sexp(v), j=j))
        if acc[k] == 'accept' and admitted is None:
            admitted = v
        # the other direction: a value object of an ancestor type whose value a descendant's constraints reject must
        # not end up stored where the descendant is expected, whatever the container looks like
        if fam in ('int', 'bytes', 'str'):
            for j in range(1, k + 1):
                if acc[j] != 'reject' or not applicable(exprs[j], v) or [p for p in implicit_at if p <= j]:
                    continue
                srcs = [i for i in range(j) if acc[i] == 'accept']
                if not srcs:
                    continue
                check_foreign_assignment(rep, fam, types, exprs, srcs[-1], j, v, case)
                break
    # a value of the most derived type goes where any ancestor is expected
    if admitted is not None and k >= 1:
        try:
            vobj = value_object(fam, types[k], admitted)
        except Exception as ex:  # noqa
            rep.fail('chain-value-' + type(ex).__name__, 'cannot build the admitted value', case)
            return
        for i in range(k):
            if [p for p in implicit_at if i < p <= k]:
                continue
            rep.count('assignments')
            for holder in ('seq', 'seqof'):
                try:
                    if holder == 'seq':
                        s = univ.Sequence(componentType=namedtype.NamedTypes(namedtype.NamedType('x', types[i])))
                        s.setComponentByName('x', vobj)
                        ok = s.getComponentByName('x') is vobj
                    else:
                        s = univ.SequenceOf(componentType=types[i])
                        s.setComponentByPosition(0, vobj)
                        ok = s.getComponentByPosition(0) is vobj
                    if not ok:
                        rep.fail('T6-assign-lost', 'assigned value is not what is stored', dict(case, i=i, holder=holder))
                except error.PyAsn1Error as ex:
                    rep.fail('T6-assign-refused:' + exprs[i][0],
                             'value of the derived type refused where ancestor %d is expected (%s): %s' % (i, holder, str(ex)[:80]),
                             dict(case, i=i, holder=holder, value=val_sexp(admitted)))
                except Exception as ex:  # noqa
                    rep.fail('T6-assign-leak-' + type(ex).__name__, 'assignment raised %s' % ex, dict(case, i=i, holder=holder))


def op_chain(rep, drv, rng, n):
    g = Gen(rng)
    for _ in range(n):
        fam = rng.choice(FAMILIES)
        style = rng.choice(['none', 'kwarg', 'subtype', 'subtype', 'class', 'class+'])
        c0 = None if style == 'none' else g.expr(fam, rng.choice([1, 1, 2, 3]))
        steps = []
        for _j in range(rng.choice([1, 1, 2, 2, 3])):
            extra = g.expr(fam, rng.choice([1, 1, 2]))
            if rng.random() < 0.3:
                extra = ('and', [extra])
            x = rng.random()
            tg = None if x < 0.55 else (('e', rng.choice([0, 1, 30, 31, 200])) if x < 0.85 else ('i', rng.choice([0, 2, 31])))
            steps.append((extra, tg))
        check_chain(rep, drv, rng, fam, c0, style, steps)


def op_super_pairs(rep, drv, rng, n):
    """isSuperTypeOf / isSubTypeOf / == on related and unrelated pairs: model vs code"""
    g = Gen(rng)
    for _ in range(n):
        fam = rng.choice(FAMILIES)
        p = g.expr(fam, rng.choice([1, 2, 3]))
        x = rng.random()
        if x < 0.15:
            q = g.expr(fam, rng.choice([1, 2, 3]))
        elif x < 0.3:
            q = derive(p, g.expr(fam, 1))
        elif x < 0.45:
            q = (rng.choice(['and', 'or']), [p, g.expr(fam, 1)])
        elif x < 0.55:
            q = ('and', [('and', [p]), g.expr(fam, 1)])
        elif x < 0.7 and len(p[1]) == 2 and all(is_atom(o) and o[0] == 'i' for o in p[1]) and p[1][0][1] <= p[1][1][1]:
            q = (rng.choice(['vr', 'vs', 'sv']), list(p[1]))
        elif x < 0.8 and p[0] in ('and', 'or', 'ex'):
            q = (rng.choice(['and', 'or', 'ex']), list(p[1]))
        else:
            q = (p[0], list(p[1]))
        if rng.random() < 0.5:
            p, q = q, p
        try:
            po, qo = build(p), build(q)
        except Exception:  # noqa
            continue
        rep.case('super %s %s' % (sexp(p), sexp(q)), nontrivial=True)
        try:
            sup, sub, eq = po.isSuperTypeOf(qo), qo.isSubTypeOf(po), po == qo
        except Exception as ex:  # noqa
            rep.fail('isSuperTypeOf-leak-' + type(ex).__name__, 'isSuperTypeOf raised %s' % ex,
                     {'kind': 'super', 'parent': sexp(p), 'child': sexp(q)})
            continue
        model_super(rep, drv, p, q, sup, sub, eq, 'pair')


# ------------------------------------------------------------------------------ op SCALAR

def payload(fam, obj):
    if fam == 'int':
        return ('i', int(obj))
    if fam == 'bytes':
        return ('b', tuple(obj.asOctets()))
    if fam == 'str':
        return ('s', tuple(ord(ch) for ch in str(obj)))
    raise ValueError(fam)


def int_ops(rng, x, lo_hi):
    """(name, thunk) for every value-producing operator of Integer with boundary operands"""
    v = int(x)
    ks = set([0, 1, -1, 2, 3, 7, 8, 255])
    for b in lo_hi:
        ks.update([b - v, b - v + 1, b - v - 1, v - b, b, b + 1])
    ks = sorted(ks)
    if len(ks) > 14:
        ks = rng.sample(ks, 14)
    ops = []
    for k in ks:
        ops += [('add', lambda k=k: x + k), ('radd', lambda k=k: k + x), ('sub', lambda k=k: x - k), ('rsub', lambda k=k: k - x),
                ('mul', lambda k=k: x * k), ('rmul', lambda k=k: k * x), ('floordiv', lambda k=k: x // k),
                ('rfloordiv', lambda k=k: k // x), ('mod', lambda k=k: x % k), ('rmod', lambda k=k: k % x),
                ('and', lambda k=k: x & k), ('rand', lambda k=k: k & x), ('or', lambda k=k: x | k), ('ror', lambda k=k: k | x),
                ('xor', lambda k=k: x ^ k), ('rxor', lambda k=k: k ^ x), ('truediv', lambda k=k: x / k),
                ('divmod', lambda k=k: divmod(x, k))]
        if abs(k) <= 8:
            ops += [('pow', lambda k=k: x ** k), ('lshift', lambda k=k: x << k), ('rshift', lambda k=k: x >> k),
                    ('round', lambda k=k: round(x, k))]
            if abs(v) <= 64:
                ops += [('rpow', lambda k=k: k ** x)]
        if 0 < abs(k) <= 8:
            ops += [('pow3', lambda k=k: pow(x, 2, k))]
    ops += [('abs', lambda: abs(x)), ('neg', lambda: -x), ('pos', lambda: +x), ('invert', lambda: ~x),
            ('trunc', lambda: math.trunc(x)), ('floor', lambda: math.floor(x)), ('ceil', lambda: math.ceil(x)),
            ('round0', lambda: round(x))]
    return ops


def str_ops(rng, fam, x, sizes, alphabet):
    n = len(x)
    cut = sorted(set([0, 1, n, n - 1, n + 1, -1] + [s for s in sizes] + [n - s for s in sizes]))
    ops = []
    for a in cut:
        for b in cut:
            ops.append(('slice', lambda a=a, b=b: x[a:b]))
    ops += [('slice-step', lambda: x[::2]), ('slice-rev', lambda: x[::-1]), ('slice-all', lambda: x[:])]
    tails = [(), (OUTSIDE,)] + [tuple(rng.choice(alphabet or ALPHA) for _ in range(m)) for m in (1, 2, 3)]
    for t in tails:
        tv = bytes(t) if fam == 'bytes' else ''.join(chr(c) for c in t)
        ops += [('concat', lambda tv=tv: x + tv), ('rconcat', lambda tv=tv: tv + x)]
    for m in (0, 1, 2, 3):
        ops += [('repeat', lambda m=m: x * m), ('rrepeat', lambda m=m: m * x)]
    return ops


def bit_ops(x, sizes):
    n = len(x)
    cut = sorted(set([0, 1, n, n - 1, n + 1] + list(sizes)))
    ops = []
    for a in cut:
        for b in cut:
            ops.append(('slice', lambda a=a, b=b: x[a:b]))
    for t in ('', '1', '01', '0000'):
        ops += [('concat', lambda t=t: x + t), ('rconcat', lambda t=t: t + x)]
    for m in (0, 1, 2, 3):
        ops += [('repeat', lambda m=m: x * m), ('rrepeat', lambda m=m: m * x), ('lshift', lambda m=m: x << m),
                ('rshift', lambda m=m: x >> m)]
    return ops


def judge_result(rep, fam, ty, e, name, r, case, same_spec=True):
    """a returned object of the operand's class must carry its constraint and an admitted value"""
    if not isinstance(r, base.SimpleAsn1Type):
        rep.count('op-plain-result')
        return
    if type(r) is not type(ty):
        rep.count('op-other-type:' + type(r).__name__)          # Integer / x -> Real: another type's object
        try:
            r.subtypeSpec(r._value)
        except error.PyAsn1Error:
            rep.fail('scalar-op-bypass:%s:%s' % (fam, name), 'result of another type violates its own constraint', case)
        except Exception:  # noqa
            pass
        return
    rep.count('op-object-result')
    if not ((same_spec and r.subtypeSpec is ty.subtypeSpec) or unbuild(r.subtypeSpec) == e):
        rep.fail('scalar-op-drops-constraint:%s:%s' % (fam, name), 'result carries %r' % (r.subtypeSpec,), case)
        return
    if fam == 'bits':
        ok = member(e, ('b', (0,) * len(r)))            # size constraints only: a string of that many elements
    else:
        ok = member(e, payload(fam, r))
    if not ok:
        rep.fail('scalar-op-bypass:%s:%s' % (fam, name),
                 '%s returned %r, which the type\'s constraint does not admit' % (name, r.prettyPrint()[:40]), case)


def run_ops(rep, fam, ty, e, ops, case):
    for name, thunk in ops:
        rep.evaluations += 1
        try:
            r = thunk()
        except error.PyAsn1Error:
            rep.count('op-refused')
            continue
        except Exception as ex:  # noqa
            rep.count('op-raised:' + type(ex).__name__)     # ZeroDivisionError, negative shift, divmod ...: not a value
            continue
        judge_result(rep, fam, ty, e, name, r, dict(case, op=name))


def check_decode(rep, fam, ty, e, v, case):
    """decoding into the constrained type: returned objects are admitted, admitted payloads decode"""
    plain_t = type(ty)() if fam != 'bits' else univ.BitString()
    try:
        src = plain_t.clone(atom_py(v)) if fam != 'bits' else univ.BitString(v)
    except Exception:  # noqa
        return
    forms = [('ber', ber_enc.encode(src), ber_dec), ('der', der_enc.encode(src), der_dec), ('cer', cer_enc.encode(src), cer_dec)]
    if fam in ('bytes', 'str', 'bits'):
        forms += [('ber-chunked', ber_enc.encode(src, maxChunkSize=1), ber_dec),
                  ('ber-indef', ber_enc.encode(src, defMode=False, maxChunkSize=2), ber_dec)]
    inside = member(e, v) if fam != 'bits' else member(e, ('b', (0,) * len(v)))
    for name, data, dec in forms:
        rep.evaluations += 1
        try:
            obj, rest = dec.decode(data, asn1Spec=ty)
        except error.PyAsn1Error:
            if inside:
                rep.fail('decode-rejects-member:%s:%s' % (fam, name), 'payload in the denotation was refused', dict(case, form=name, data=data.hex()))
            continue
        except Exception as ex:  # noqa
            rep.fail('decode-leak-%s:%s' % (type(ex).__name__, fam), 'decoding raised %s' % ex, dict(case, form=name, data=data.hex()))
            continue
        judge_result(rep, fam, ty, e, 'decode-' + name, obj, dict(case, form=name, data=data.hex()))
        if not inside:
            rep.fail('scalar-op-bypass:%s:decode-%s' % (fam, name), 'decoder produced a value outside the denotation',
                     dict(case, form=name, data=data.hex()))


def check_scalar(rep, drv, rng, fam, e, style='subtype'):
    g = Gen(rng)
    efam = 'bytes' if fam == 'bits' else fam
    case = {'kind': 'scalar', 'family': fam, 'constraint': sexp(e), 'style': style}
    if fam == 'bits':
        ty, spec = univ.BitString().subtype(subtypeSpec=build(e)), derive(('and', []), e)
    else:
        ty, spec = make_t0(fam, e, style, rng)
    m = g.mentioned(e, {})
    bounds = [a[1] for a in m.get('vr', []) + m.get('sv', []) + m.get('vs', []) if a[0] == 'i']
    sizes = [a[1] for a in m.get('vs', [])]
    alphabet = [a[1] if a[0] == 'i' else a[1][0] for a in m.get('pa', []) if a[0] == 'i' or len(a[1]) == 1]
    for v in g.candidates(e, efam, 8):
        vcase = dict(case, value=val_sexp(v))
        rep.case('scalar %s %s %s' % (fam, sexp(e), val_sexp(v)), nontrivial=True, sample=vcase)
        pv = atom_py(v) if fam != 'bits' else ''.join('01'[c & 1] for c in v[1])
        inside = member(spec, v) if fam != 'bits' else member(spec, ('b', (0,) * len(pv)))
        # construction paths: clone(value), class call, subtype(value)
        built = None
        for name, thunk in [('clone', lambda: ty.clone(pv)), ('init', lambda: type(ty)(pv, subtypeSpec=ty.subtypeSpec)),
                            ('subtype-value', lambda: ty.subtype(pv))]:
            rep.evaluations += 1
            try:
                x = thunk()
            except error.PyAsn1Error:
                if inside:
                    rep.fail('construct-rejects-member:%s:%s' % (fam, name), 'value in the denotation refused', vcase)
                continue
            except Exception as ex:  # noqa
                rep.fail('construct-leak-%s:%s' % (type(ex).__name__, fam), '%s raised %s' % (name, ex), vcase)
                continue
            judge_result(rep, fam, ty, spec, name, x, vcase)
            if not inside:
                rep.fail('scalar-op-bypass:%s:%s' % (fam, name), 'constructed a value outside the denotation', vcase)
            built = x
        # the model's mk agrees (scalar families the model has)
        if fam != 'bits':
            ans = drv.ask('CONSTR_MK %s %s' % (sexp(spec), atom_sexp(v)))
            rep.corr_checked += 1
            want = 'ok accept' if built is not None else 'ok reject'
            if ans != want:
                rep.disagree('CONSTR_MK', vcase, ans, want)
        check_decode(rep, fam, ty, spec, v if fam != 'bits' else pv, vcase)
        if built is None:
            continue
        x = built
        if fam == 'int':
            ops = int_ops(rng, x, bounds)
        elif fam == 'bits':
            ops = bit_ops(x, sizes)
        else:
            ops = str_ops(rng, fam, x, sizes, alphabet)
        run_ops(rep, fam, ty, spec, ops, vcase)
        # re-validation on clone / subtype with the existing value
        extra = g.expr(efam if fam != 'bits' else 'coll', 1) if fam != 'bits' else ('vs', [('i', rng.randrange(3)), ('i', 3 + rng.randrange(3))])
        narrowed = derive(spec, extra)
        for name, thunk, sp in [
                ('clone-tag', lambda: x.clone(tagSet=x.tagSet.tagExplicitly(tag.Tag(tag.tagClassContext, tag.tagFormatSimple, 1))), spec),
                ('subtype-etag', lambda: x.subtype(explicitTag=tag.Tag(tag.tagClassContext, tag.tagFormatSimple, 2)), spec),
                ('subtype-itag', lambda: x.subtype(implicitTag=tag.Tag(tag.tagClassContext, tag.tagFormatSimple, 3)), spec),
                ('subtype-spec', lambda: x.subtype(subtypeSpec=build(extra)), narrowed),
                ('subtype-spec-etag', lambda: x.subtype(subtypeSpec=build(extra), explicitTag=tag.Tag(tag.tagClassApplication, tag.tagFormatSimple, 40)), narrowed)]:
            rep.evaluations += 1
            try:
                r = thunk()
            except error.PyAsn1Error:
                rep.count('op-refused')
                continue
            except Exception as ex:  # noqa
                rep.fail('subtype-raises-%s:%s' % (type(ex).__name__, spec[0]), '%s raised %s' % (name, ex), dict(vcase, op=name))
                continue
            judge_result(rep, fam, ty, sp, name, r, dict(vcase, op=name, extra=sexp(extra)), same_spec=sp is spec)


def op_scalar(rep, drv, rng, n):
    g = Gen(rng)
    for _ in range(n):
        fam = rng.choice(['int', 'int', 'bytes', 'str', 'bits'])
        if fam == 'bits':
            lo, hi = g.rng_pair(0, [0, 1, 2, 3, 4, 6, 8])
            e = ('vs', [('i', lo), ('i', hi)])
            if rng.random() < 0.4:
                lo2, hi2 = g.rng_pair(0, [0, 1, 2, 3, 4, 6, 8])
                e = (rng.choice(['and', 'or']), [e, ('vs', [('i', lo2), ('i', hi2)])])
            style = 'subtype'
        else:
            e = g.expr(fam, rng.choice([1, 1, 2, 3]))
            style = rng.choice(['kwarg', 'subtype', 'subtype', 'class', 'class+'])
        rep.count('scalar-family=' + fam)
        check_scalar(rep, drv, rng, fam, e, style)


# ------------------------------------------------------------------------------ op GATE (encoders on constructed values)

ENCODERS = [('ber', lambda o: ber_enc.encode(o)), ('ber-indef', lambda o: ber_enc.encode(o, defMode=False)),
            ('cer', lambda o: cer_enc.encode(o)), ('der', lambda o: der_enc.encode(o))]


def check_gate(rep, drv, rng, fam, e, style, v):
    case = {'kind': 'gate', 'family': fam, 'constraint': sexp(e), 'style': style, 'value': val_sexp(v)}
    ty, spec = make_t0(fam, e, style, rng)
    try:
        obj = value_object(fam, ty, v)
    except Exception as ex:  # noqa
        rep.fail('gate-value-' + type(ex).__name__, 'cannot build the value: %s' % ex, case)
        return
    rep.case('gate %s %s %s' % (type(ty).__name__, sexp(spec), val_sexp(v)), nontrivial=True, sample=case)
    app = applicable(spec, v)
    inside = member(spec, v) if app else None
    ans = drv.ask('CONSTR_GATE %s %s' % (sexp(spec), val_sexp(v)))
    rep.corr_checked += 1
    for name, enc in ENCODERS:
        rep.evaluations += 1
        try:
            data = enc(obj)
            got = 'accept'
        except error.PyAsn1Error:
            got = 'reject'
        except Exception as ex:  # noqa
            got = 'leak:' + type(ex).__name__
        if ans != 'ok ' + got.split(':')[0]:
            rep.disagree('CONSTR_GATE', dict(case, encoder=name), ans, got)
        if not app:
            continue
        if got.startswith('leak'):
            rep.fail('encode-leak-%s:%s' % (got[5:], cls_sig(spec)), 'encoder raised %s' % got[5:], dict(case, encoder=name))
        elif got == 'accept' and not inside:
            rep.fail('encoder-accepts-violation:%s:%s' % (fam, name),
                     'encoder produced %s for a value outside the denotation' % data.hex()[:40], dict(case, encoder=name))
        elif got == 'reject' and inside:
            rep.fail('encoder-refuses-member:%s:%s' % (fam, name), 'encoder refused a value in the denotation', dict(case, encoder=name))
    rep.count('gate=' + ('not-applicable' if not app else 'inside' if inside else 'outside'))


def check_gate_all_mandatory(rep):
    """the encoders' consistency gate on records that have NO optional or defaulted member: a record-level constraint is not only
    about presence - inner value constraints of WITH COMPONENTS, a size of the record, ABSENT on a member that is there - and a
    fully populated value can violate it; refused by every encoder iff outside the denotation"""
    def mk(cls, spec):
        return cls(componentType=namedtype.NamedTypes(namedtype.NamedType('age', univ.Integer()), namedtype.NamedType('name', univ.OctetString())),
                   subtypeSpec=spec)
    specs = [('age (0..150)', C.WithComponentsConstraint(('age', C.ValueRangeConstraint(0, 150))), lambda a, n: 0 <= a <= 150),
             ('age (5 | 7)', C.WithComponentsConstraint(('age', C.SingleValueConstraint(5, 7))), lambda a, n: a in (5, 7)),
             ('age (ALL EXCEPT 99)', C.WithComponentsConstraint(('age', C.ConstraintsExclusion(C.SingleValueConstraint(99)))), lambda a, n: a != 99),
             ('name SIZE (1..2)', C.WithComponentsConstraint(('name', C.ValueSizeConstraint(1, 2))), lambda a, n: 1 <= len(n) <= 2),
             ('SIZE (1..1) of the record', C.ValueSizeConstraint(1, 1), lambda a, n: False),
             ('SIZE (2..3) of the record', C.ValueSizeConstraint(2, 3), lambda a, n: True),
             ('name ABSENT', C.WithComponentsConstraint(('name', C.ComponentAbsentConstraint())), lambda a, n: False),
             ('age PRESENT', C.WithComponentsConstraint(('age', C.ComponentPresentConstraint())), lambda a, n: True)]
    for cname, cls in (('Sequence', univ.Sequence), ('Set', univ.Set)):
        for sname, spec, admits_ in specs:
            for a, n in ((0, b'x'), (150, b'xy'), (151, b'x'), (-1, b''), (5, b'xyz'), (99, b'x'), (7, b'ab')):
                try:
                    obj = mk(cls, spec).clone()
                    obj['age'] = a
                    obj['name'] = n
                except error.PyAsn1Error:
                    continue
                for ename, enc in ENCODERS:
                    rep.evaluations += 1
                    rep.count('gate-all-mandatory')
                    case = {'kind': 'gate-all-mandatory', 'container': cname, 'constraint': sname, 'age': a, 'name': n.hex(), 'encoder': ename}
                    try:
                        data = enc(obj)
                        got = True
                    except error.PyAsn1Error:
                        got = False
                    except Exception as ex:  # noqa
                        rep.fail('encode-leak-%s:all-mandatory' % type(ex).__name__, repr(ex), case)
                        continue
                    if got and not admits_(a, n):
                        rep.fail('encoder-accepts-violation:rec-all-mandatory:%s' % ename, '%s {age %d, name %r} (%s) encoded to %s' % (
                            cname, a, n, sname, data.hex()), case)
                    if not got and admits_(a, n):
                        rep.fail('encoder-refuses-member:rec-all-mandatory:%s' % ename, '%s {age %d, name %r} (%s) refused' % (cname, a, n, sname), case)


def op_gate(rep, drv, rng, n):
    g = Gen(rng)
    for _ in range(n):
        fam = rng.choice(['coll', 'rec'])
        e = g.expr(fam, rng.choice([1, 2, 2, 3]))
        style = rng.choice(['kwarg', 'subtype', 'subtype', 'class', 'class+'])
        for v in g.candidates(e, fam, 6):
            check_gate(rep, drv, rng, fam, e, style, v)


# ------------------------------------------------------------------------------ audit (tie for scalar_ops_checked)

OPERATOR_METHODS = set('''__and__ __rand__ __or__ __ror__ __xor__ __rxor__ __lshift__ __rshift__ __add__ __radd__ __sub__ __rsub__
__mul__ __rmul__ __mod__ __rmod__ __pow__ __rpow__ __floordiv__ __rfloordiv__ __abs__ __pos__ __neg__ __invert__ __trunc__
__getitem__'''.split())


def audit_sources(rep):
    """the scalar model says: a payload is only ever stored by __init__, after the constraint accepted it, and every
    operator goes through clone(); check that on the source"""
    tdir = os.path.join(common.REPO, 'pyasn1', 'type')
    stores = []
    for fn in sorted(os.listdir(tdir)):
        if not fn.endswith('.py'):
            continue
        tree = ast.parse(open(os.path.join(tdir, fn)).read())
        for cls in [n for n in ast.walk(tree) if isinstance(n, ast.ClassDef)]:
            for fun in [n for n in cls.body if isinstance(n, ast.FunctionDef)]:
                for node in ast.walk(fun):
                    if isinstance(node, ast.Attribute) and node.attr == '_value' and isinstance(node.ctx, (ast.Store, ast.Del)):
                        stores.append('%s:%s.%s' % (fn, cls.name, fun.name))
    rep.corr_checked += 1
    if stores != ['base.py:SimpleAsn1Type.__init__']:
        rep.disagree('AUDIT-value-store', 'stores to ._value', ['base.py:SimpleAsn1Type.__init__'], stores)
    # __init__: subtypeSpec(value) precedes the store
    src = ast.parse(open(os.path.join(tdir, 'base.py')).read())
    init = [f for c in ast.walk(src) if isinstance(c, ast.ClassDef) and c.name == 'SimpleAsn1Type'
            for f in c.body if isinstance(f, ast.FunctionDef) and f.name == '__init__'][0]
    calls = [n.lineno for n in ast.walk(init) if isinstance(n, ast.Call) and isinstance(n.func, ast.Attribute)
             and n.func.attr == 'subtypeSpec']
    store = [n.lineno for n in ast.walk(init) if isinstance(n, ast.Attribute) and n.attr == '_value' and isinstance(n.ctx, ast.Store)]
    rep.corr_checked += 1
    if not (len(calls) == 1 and len(store) == 1 and calls[0] < store[0]):
        rep.disagree('AUDIT-init-order', 'SimpleAsn1Type.__init__', 'subtypeSpec(value) before self._value = value', [calls, store])
    # operators of the scalar classes return through self.clone(...) (or delegate to another operator / return a plain value)
    univ_src = ast.parse(open(os.path.join(tdir, 'univ.py')).read())
    bad = []
    n_ret = 0
    for cls in [n for n in univ_src.body if isinstance(n, ast.ClassDef) and n.name in ('Integer', 'BitString', 'OctetString')]:
        for fun in [n for n in ast.walk(cls) if isinstance(n, ast.FunctionDef) and n.name in OPERATOR_METHODS]:
            for ret in [n for n in ast.walk(fun) if isinstance(n, ast.Return) and n.value is not None]:
                n_ret += 1
                v = ret.value
                if isinstance(v, ast.Call):
                    f = v.func
                    if isinstance(f, ast.Attribute) and f.attr == 'clone' and isinstance(f.value, ast.Name) and f.value.id == 'self':
                        continue
                    if isinstance(f, ast.Name) and f.id == 'Real':
                        continue
                    bad.append('%s.%s: %s' % (cls.name, fun.name, ast.dump(v)[:80]))
                elif isinstance(v, ast.BinOp) and isinstance(v.left, ast.Name) and v.left.id == 'self' and isinstance(v.op, ast.Mult):
                    continue            # __rmul__: return self * value
                elif fun.name == '__getitem__':
                    continue            # a single element: a plain int
                else:
                    bad.append('%s.%s: %s' % (cls.name, fun.name, ast.dump(v)[:80]))
    rep.corr_checked += 1
    rep.count('audited-returns', n_ret)
    if bad or n_ret < 30:
        rep.disagree('AUDIT-operators', 'operator methods return self.clone(...)', 'all', bad or n_ret)


# ------------------------------------------------------------------------------ s-expression reader (corpus, replay)

def _tokens(s):
    return s.replace('(', ' ( ').replace(')', ' ) ').split()


def _read(toks, i):
    if toks[i] == '(':
        out = []
        i += 1
        while toks[i] != ')':
            x, i = _read(toks, i)
            out.append(x)
        return out, i + 1
    return toks[i], i + 1


def _codes(s):
    return tuple(int(x) for x in s.split('.')) if s != '-' else ()


def _atom(x):
    if x == 'none':
        return ('none',)
    if isinstance(x, str):
        return ('i', int(x))
    if x[0] == 'i':
        return ('i', int(x[1]))
    if x[0] in ('s', 'b'):
        return (x[0], _codes(x[1]))
    return None


def _expr(x):
    ops = []
    for o in x[1:]:
        if isinstance(o, list) and o[0] == 'f':
            ops.append(('f', o[1], _expr(o[2])))
        elif isinstance(o, list) and o[0] == 'e':
            ops.append(('e', int(o[1]), _expr(o[2]), o[3] == '1'))
        elif isinstance(o, str) or o[0] in ('i', 's', 'b'):
            ops.append(_atom(o))
        else:
            ops.append(_expr(o))
    return (x[0], ops)


def parse_expr(s):
    return _expr(_read(_tokens(s), 0)[0])


def parse_val(s):
    x = _read(_tokens(s), 0)[0]
    if isinstance(x, list) and x[0] == 'coll':
        return ('coll', [_atom(a) for a in x[1:]])
    if isinstance(x, list) and x[0] == 'rec':
        return ('rec', [(f[0], _atom(f[1])) for f in x[1:]])
    return _atom(x)


def run_case(rep, drv, rng, d):
    """one stored case (corpus entry or the replay dict of a failure)"""
    k = d.get('kind')
    if k == 'eval':
        check_eval(rep, drv, parse_expr(d['constraint']), parse_val(d['value']), d.get('idx'))
    elif k == 'chain':
        steps = [(parse_expr(e), tuple(t) if t else None) for e, t in d['steps']]
        check_chain(rep, drv, rng, d['family'], parse_expr(d['t0']) if d.get('t0') else None, d['style'], steps)
    elif k == 'scalar':
        check_scalar(rep, drv, rng, d['family'], parse_expr(d['constraint']), d.get('style', 'subtype'))
    elif k == 'gate':
        check_gate(rep, drv, rng, d['family'], parse_expr(d['constraint']), d.get('style', 'subtype'), parse_val(d['value']))
    elif k == 'super':
        p, q = parse_expr(d['parent']), parse_expr(d['child'])
        po, qo = build(p), build(q)
        model_super(rep, drv, p, q, po.isSuperTypeOf(qo), qo.isSubTypeOf(po), po == qo, 'pair')
        if 'expect' in d and bool(po.isSuperTypeOf(qo)) != d['expect']:
            rep.fail('not-imposing-type-recognised' if not d['expect'] else 'T6-derived-not-recognised:and',
                     'isSuperTypeOf is %s' % (not d['expect']), d)
    elif k == 'finding':
        known_finding_probes(rep)
    elif k == 'sizespec':
        check_sizespec(rep, drv, rng, parse_expr(d['subtypeSpec']), parse_expr(d['sizeSpec']), d['n'])
    else:
        return False
    return True


# ------------------------------------------------------------------------------ recorded findings (deterministic probes)

def known_finding_probes(rep):
    # constraints on REAL see the internal (mantissa, base, exponent) tuple
    try:
        univ.Real().subtype(subtypeSpec=C.ValueRangeConstraint(0, 10)).clone(2.5)
        got = 'accept'
    except error.PyAsn1Error:
        got = 'reject'
    except Exception as ex:  # noqa
        got = 'leak:' + type(ex).__name__
    rep.evaluations += 1
    if got != 'accept':
        rep.fail('real-constraint-sees-tuple', 'REAL (0..10) applied to 2.5: %s' % got,
                 {'kind': 'finding', 'what': 'Real().subtype(subtypeSpec=ValueRangeConstraint(0, 10)).clone(2.5)'})


def check_sizespec(rep, drv, rng, st, sz, n_items):
    """legacy sizeSpec= next to subtypeSpec=: both are enforced, clones keep the type (fix b99ccc0)"""
    case = {'kind': 'sizespec', 'subtypeSpec': sexp(st), 'sizeSpec': sexp(sz), 'n': n_items}
    rep.case('sizespec %s %s %d' % (sexp(st), sexp(sz), n_items), nontrivial=True)
    try:
        so = univ.SequenceOf(componentType=univ.Integer(), subtypeSpec=build(st), sizeSpec=build(sz))
        got = unbuild(so.subtypeSpec)
    except Exception as ex:  # noqa
        rep.fail('sizeSpec-raises-' + type(ex).__name__, 'SequenceOf(subtypeSpec=, sizeSpec=) raised %s' % ex, case)
        return
    ans = drv.ask('CONSTR_MOVESIZE %s %s %s' % (sexp(st), sexp(sz), sexp(got)))
    rep.corr_checked += 1
    if ans != 'ok 1':
        rep.disagree('CONSTR_MOVESIZE', case, ans, sexp(got))
    cl = so.clone()
    if not (so.isSameTypeWith(cl) and unbuild(cl.subtypeSpec) == got):
        rep.fail('sizeSpec-clone-changes-type', 'clone() of a type built with sizeSpec is another type', case)
    v = ('coll', [('i', x) for x in range(n_items)])
    obj = value_object('coll', so, v)
    inside = member(st, v) and member(sz, v)
    try:
        ber_enc.encode(obj)
        ok = True
    except error.PyAsn1Error:
        ok = False
    rep.evaluations += 1
    if ok and not inside:
        rep.fail('legacy-sizeSpec-replaces-subtypeSpec', 'subtypeSpec %s with sizeSpec %s: %d elements encoded' % (sexp(st), sexp(sz), n_items), case)
    elif inside and not ok:
        rep.fail('encoder-refuses-member:coll:sizespec', 'value within both constraints refused', case)


def op_sizespec(rep, drv, rng, n):
    g = Gen(rng)
    for _ in range(n):
        st = g.expr('coll', rng.choice([1, 2]))
        if not build(st) and st[0] != 'and':
            st = ('and', [])
        sz = g.leaf('coll', 1)
        if sz[0] != 'vs':
            continue
        if rng.random() < 0.4:
            sz = ('and', [sz])
        if rng.random() < 0.15:
            st = rng.choice([sz, ('and', [sz]), derive(('and', []), sz)])
        check_sizespec(rep, drv, rng, st, sz, rng.choice([0, 1, 2, 3, 4, 5]))


# ------------------------------------------------------------------------------ entry points

def run_corpus(rep, drv, rng):
    path = os.path.join(common.VERIF, 'corpus', 'C14', 'witnesses.json')
    for d in json.load(open(path))['cases']:
        rep.count('corpus')
        run_case(rep, drv, rng, d)


def check_fresh_container_assignment(rep):
    """the subtype check on assignment does not depend on whether the assigned container already holds anything: a
    never-filled container of a tag-compatible but wider type is refused like a filled one, so that filling it later
    cannot put a value the field rejects into the record; a container of a derived type is accepted"""
    elem = univ.Integer()
    F = univ.SequenceOf(componentType=elem).subtype(subtypeSpec=C.ValueSizeConstraint(1, 2))
    wider = [('unconstrained', univ.SequenceOf(componentType=elem)),
             ('size-0-8', univ.SequenceOf(componentType=elem).subtype(subtypeSpec=C.ValueSizeConstraint(0, 8)))]
    derived = [('same', F), ('narrower', F.subtype(subtypeSpec=C.ValueSizeConstraint(1, 1)))]
    holders = [('seq', lambda: univ.Sequence(componentType=namedtype.NamedTypes(namedtype.NamedType('n', univ.Integer()), namedtype.NamedType('x', F)))),
               ('set', lambda: univ.Set(componentType=namedtype.NamedTypes(namedtype.NamedType('n', univ.Integer()), namedtype.NamedType('x', F)))),
               ('choice', lambda: univ.Choice(componentType=namedtype.NamedTypes(namedtype.NamedType('n', univ.Integer()), namedtype.NamedType('x', F))))]
    for hname, mk in holders:
        for state in ('fresh', 'cleared', 'filled-3'):
            for wname, W in wider + derived:
                for api in ('setitem', 'byname', 'bypos'):
                    rep.evaluations += 1
                    rep.count('container-assignments')
                    case = {'kind': 'fresh-container', 'holder': hname, 'state': state, 'source': wname, 'api': api}
                    h = mk().clone()
                    c = W.clone()
                    if state == 'cleared':
                        c.clear()
                    elif state == 'filled-3':
                        c.extend([1, 2, 3])
                    try:
                        if api == 'setitem':
                            h['x'] = c
                        elif api == 'byname':
                            h.setComponentByName('x', c)
                        else:
                            h.setComponentByPosition(1, c)
                        stored = True
                    except (error.PyAsn1Error, KeyError, IndexError):
                        stored = False
                    except Exception as ex:  # noqa
                        rep.fail('container-assign-leak-' + type(ex).__name__, '%s raised %s' % (api, ex), case)
                        continue
                    is_derived = (wname, W) in derived
                    if stored and not is_derived:
                        rep.fail('assignment-bypasses-constraint:container:%s' % state,
                                 'a %s container of the wider type %s was stored in a SIZE (1..2) field via %s' % (state, wname, api), case)
                    if not stored and is_derived and state != 'filled-3':
                        rep.fail('derived-container-refused', 'a %s container of the derived type %s was refused via %s' % (state, wname, api), case)


def check_occupied_slot_reassignment(rep):
    """the subtype check on assignment does not depend on what the position already holds: a SEQUENCE OF / SET OF position that
    was occupied before - by a valid assignment, or by a mere read that left the element type's placeholder - refuses a value of
    the unconstrained parent type outside the element constraints exactly as a fresh position does, through every assignment
    operation; values of the element type and of derived types are accepted"""
    from pyasn1.type import char
    fams = [('INTEGER (0..100)', univ.Integer().subtype(subtypeSpec=C.ValueRangeConstraint(0, 100)), univ.Integer, 5, [-1, 101, 7, 100], lambda x: 0 <= x <= 100),
            ('OCTET STRING SIZE (1..4)', univ.OctetString().subtype(subtypeSpec=C.ValueSizeConstraint(1, 4)), univ.OctetString, b'ab',
             [b'', b'abcde', b'xy', b'abcd'], lambda x: 1 <= len(x) <= 4),
            ('IA5String FROM (a|b|c)', char.IA5String().subtype(subtypeSpec=C.PermittedAlphabetConstraint('a', 'b', 'c')), char.IA5String, 'ab',
             ['abd', 'z', 'cab', ''], lambda x: all(ch in 'abc' for ch in str(x)))]
    occupy = {'fresh': lambda s, good: None,
              'assigned': lambda s, good: s.__setitem__(0, good),
              'read': lambda s, good: s.getComponentByPosition(0),
              'assigned-then-read': lambda s, good: (s.__setitem__(0, good), s[0])}
    assign = {'setitem': lambda s, v: s.__setitem__(0, v),
              'bypos': lambda s, v: s.setComponentByPosition(0, v),
              'slice': lambda s, v: s.__setitem__(slice(0, 1), [v])}
    for cname, cls in (('SequenceOf', univ.SequenceOf), ('SetOf', univ.SetOf)):
        for fname, elem, parent, good, probes, admits in fams:
            for oname, occ in sorted(occupy.items()):
                for aname, asg in sorted(assign.items()):
                    for probe in probes:
                        for src_name, mk in (('parent', lambda p: parent(p)), ('element-type', None), ('derived-tagged', None)):
                            rep.evaluations += 1
                            rep.count('occupied-slot-reassignments')
                            case = {'kind': 'occupied-slot', 'container': cname, 'element': fname, 'occupied-by': oname, 'api': aname,
                                    'value': repr(probe), 'source': src_name}
                            s = cls(componentType=elem)
                            try:
                                occ(s, good)
                            except error.PyAsn1Error:
                                continue
                            try:
                                if src_name == 'parent':
                                    v = parent(probe)
                                elif src_name == 'element-type':
                                    v = elem.clone(probe)
                                else:
                                    v = elem.subtype(subtypeSpec=C.ConstraintsIntersection()).clone(probe)
                            except error.PyAsn1Error:
                                continue            # the value cannot even be built in that type: nothing to assign
                            try:
                                asg(s, v)
                                stored = True
                            except (error.PyAsn1Error, IndexError, KeyError):
                                stored = False
                            except Exception as ex:  # noqa
                                rep.fail('occupied-slot-leak-' + type(ex).__name__, '%s raised %r' % (aname, ex), case)
                                continue
                            if stored and len(s) > 0 and s[0].isValue and not admits(s[0] if fname.startswith('IA5') else (
                                    int(s[0]) if fname.startswith('INTEGER') else bytes(s[0]))):
                                rep.fail('assignment-bypasses-constraint:occupied-slot:%s' % oname,
                                         '%s OF %s: position 0 (%s) took %r of the %s through %s' % (cname, fname, oname, probe, src_name, aname), case)
                            if not stored and src_name != 'parent' and oname != 'read' and aname != 'slice':
                                rep.fail('element-type-value-refused', '%s OF %s: position 0 (%s) refused %r of the %s through %s' % (
                                    cname, fname, oname, probe, src_name, aname), case)


def check_retyped_containers(rep):
    """a populated SEQUENCE OF / SET OF copied into a container with another component type in one step
    (clone / subtype with componentType=... and cloneValueFlag=True): the copy is refused, or every component it holds is
    admitted by the new component type"""
    I = univ.Integer
    narrow = [('range 0..10', I().subtype(subtypeSpec=C.ValueRangeConstraint(0, 10)), lambda x: 0 <= x <= 10),
              ('single 5|7', I().subtype(subtypeSpec=C.SingleValueConstraint(5, 7)), lambda x: x in (5, 7)),
              ('all except 99', I().subtype(subtypeSpec=C.ConstraintsExclusion(C.SingleValueConstraint(99))), lambda x: x != 99),
              ('range in range', I().subtype(subtypeSpec=C.ValueRangeConstraint(0, 100)).subtype(subtypeSpec=C.ValueRangeConstraint(5, 9)),
               lambda x: 5 <= x <= 9)]
    contents = [[5, 99], [5, 7], [0, 10, 11], [99], [-1], [7, 7, 7], []]
    for cls in (univ.SequenceOf, univ.SetOf):
        for nname, nt, admits in narrow:
            for vals in contents:
                src = cls(componentType=I())
                src.extend(vals)
                for route, make in (('clone', lambda: src.clone(componentType=nt, cloneValueFlag=True)),
                                    ('subtype', lambda: src.subtype(componentType=nt, cloneValueFlag=True))):
                    rep.evaluations += 1
                    rep.count('retyped-containers')
                    case = {'kind': 'retyped-container', 'container': cls.__name__, 'component': nname, 'values': vals, 'route': route}
                    try:
                        out = make()
                        held = [int(x) for x in out]
                    except error.PyAsn1Error:
                        continue
                    except Exception as ex:  # noqa
                        rep.fail('retyped-leak-' + type(ex).__name__, '%s(%s) of %r: %s' % (route, nname, vals, ex), case)
                        continue
                    bad = [x for x in held if not admits(x)]
                    if bad:
                        rep.fail('construction-bypasses-constraint:retyped-container',
                                 '%s of a %s holding %r with componentType=INTEGER (%s), cloneValueFlag=True returned a container '
                                 'holding %r, which the component type rejects' % (route, cls.__name__, vals, nname, bad), case)


def check_class_blind_assignment(rep):
    """a value object whose type has constraints of the same shape and operands as the field's, but of another class
    (INTEGER (-3..4) for a field INTEGER (-3 | 4); ALL EXCEPT c / c | c for c), holding a value the field rejects, must be
    refused by every container and API, with and without strictConstraints ('==' on constraint objects ignores the class;
    fixed in /repo 5ea3865, 9c46fea)"""
    I = univ.Integer
    pairs = [
        ('sv-vs-vr', I().subtype(subtypeSpec=C.SingleValueConstraint(-3, 4)), I().subtype(subtypeSpec=C.ValueRangeConstraint(-3, 4)), 0),
        ('sv-vs-vr-bare', I(subtypeSpec=C.SingleValueConstraint(-3, 4)), I(subtypeSpec=C.ValueRangeConstraint(-3, 4)), 1),
        ('sv-vs-vr-nested', I().subtype(subtypeSpec=C.ConstraintsIntersection(C.ValueRangeConstraint(-10, 10), C.SingleValueConstraint(1, 5))),
         I().subtype(subtypeSpec=C.ConstraintsIntersection(C.ValueRangeConstraint(-10, 10), C.ValueRangeConstraint(1, 5))), 3),
        ('ex-vs-and', I().subtype(subtypeSpec=C.ConstraintsExclusion(C.ValueRangeConstraint(0, 5))),
         I().subtype(subtypeSpec=C.ConstraintsIntersection(C.ValueRangeConstraint(0, 5))), 3),
        ('ex-vs-or', I().subtype(subtypeSpec=C.ConstraintsExclusion(C.ValueRangeConstraint(0, 5))),
         I().subtype(subtypeSpec=C.ConstraintsUnion(C.ValueRangeConstraint(0, 5))), 3),
        # operands that differ but hash alike in CPython (hash(-1) == hash(-2); integers 2**61 - 1 apart)
        ('hash-minus1-minus2-range', I().subtype(subtypeSpec=C.ValueRangeConstraint(-1, 4)), I().subtype(subtypeSpec=C.ValueRangeConstraint(-2, 4)), -2),
        ('hash-minus1-minus2-single', I().subtype(subtypeSpec=C.SingleValueConstraint(-1, 4)), I().subtype(subtypeSpec=C.SingleValueConstraint(-2, 4)), -2),
        ('hash-mersenne-range', I().subtype(subtypeSpec=C.ValueRangeConstraint(0, 5)), I().subtype(subtypeSpec=C.ValueRangeConstraint(0, 5 + 2 ** 61 - 1)), 77),
        ('hash-mersenne-nested', I().subtype(subtypeSpec=C.ConstraintsIntersection(C.ValueRangeConstraint(0, 9), C.ConstraintsExclusion(C.SingleValueConstraint(3)))),
         I().subtype(subtypeSpec=C.ConstraintsIntersection(C.ValueRangeConstraint(0, 9), C.ConstraintsExclusion(C.SingleValueConstraint(3 + 2 ** 61 - 1)))), 3),
        ('size-sv-vs-vs', univ.OctetString().subtype(subtypeSpec=C.ValueSizeConstraint(1, 3)),
         univ.OctetString().subtype(subtypeSpec=C.ValueSizeConstraint(1, 30)), b'abcdefgh'),
    ]
    nt = namedtype.NamedType
    for pname, F, V, v in pairs:
        try:
            F.clone(v)
            rep.fail('harness:class-blind', 'the field type of %s admits %r' % (pname, v), {'kind': 'class-blind', 'pair': pname})
            continue
        except error.PyAsn1Error:
            pass
        vobj = V.clone(v)
        # construction of a value of the field's type FROM that value object (every construction route funnels through
        # SimpleAsn1Type.__init__, which must run the constraint whatever the class of the initialiser)
        if pname != 'size-sv-vs-vs':
            for route, make in (('clone', lambda: F.clone(vobj)), ('subtype', lambda: F.subtype(vobj)),
                                ('class-call', lambda: F.__class__(vobj, subtypeSpec=F.subtypeSpec)),
                                ('clone-of-clone', lambda: F.clone(V.clone(vobj)))):
                rep.evaluations += 1
                rep.count('class-blind-initialisations')
                case = {'kind': 'class-blind-init', 'pair': pname, 'route': route, 'value': repr(v)}
                try:
                    made = make()
                except error.PyAsn1Error:
                    continue
                except Exception as ex:  # noqa
                    rep.fail('class-blind-leak-' + type(ex).__name__, 'initialisation via %s raised %s' % (route, ex), case)
                    continue
                rep.fail('construction-bypasses-constraint:other-class:%s' % pname,
                         'a value of the constrained type was built via %s from a value object of a type with equal operands under '
                         'another constraint class, holding %r which the type rejects: got %r' % (route, v, made), case)
        for strict in (False, True):
            holders = [('seq', univ.Sequence(componentType=namedtype.NamedTypes(nt('n', univ.Null()), nt('x', F))), 'name'),
                       ('set', univ.Set(componentType=namedtype.NamedTypes(nt('n', univ.Null()), nt('x', F))), 'name'),
                       ('choice', univ.Choice(componentType=namedtype.NamedTypes(nt('n', univ.Null()), nt('x', F))), 'name'),
                       ('seqof', univ.SequenceOf(componentType=F), 'pos'), ('setof', univ.SetOf(componentType=F), 'pos')]
            for hname, holder, how in holders:
                for api in (['byname', 'setitem', 'bypos'] if how == 'name' else ['bypos', 'append', 'setitem0']):
                    rep.evaluations += 1
                    rep.count('class-blind-assignments')
                    case = {'kind': 'class-blind', 'pair': pname, 'holder': hname, 'api': api, 'strict': strict, 'value': repr(v)}
                    h = holder.clone()
                    h.strictConstraints = strict
                    try:
                        if api == 'byname':
                            h.setComponentByName('x', vobj)
                        elif api == 'setitem':
                            h['x'] = vobj
                        elif api == 'append':
                            h.append(vobj)
                        elif api == 'setitem0':
                            h[0] = vobj
                        else:
                            h.setComponentByPosition(1 if how == 'name' else 0, vobj)
                    except (error.PyAsn1Error, KeyError, IndexError):
                        continue
                    except Exception as ex:  # noqa
                        rep.fail('class-blind-leak-' + type(ex).__name__, '%s via %s raised %s' % (hname, api, ex), case)
                        continue
                    if pname == 'size-sv-vs-vs':
                        continue        # control: another SIZE range is not "same operands"; whatever happens is judged elsewhere
                    rep.fail('assignment-bypasses-constraint:other-class:%s' % pname,
                             'a value object of a type with equal operands under another constraint class, holding %r, was stored '
                             'via %s (strictConstraints=%s) where the field type rejects that value' % (v, api, strict), case)
        # control: the field's own type and a type with an equal constraint set are accepted in both modes
        for strict in (False, True):
            good = F.clone([x for x in (-3, 4, 1, 5, 7, b'ab') if _admits(F, x)][0])
            h = univ.SequenceOf(componentType=F)
            h.strictConstraints = strict
            try:
                h.append(good)
            except Exception as ex:  # noqa
                rep.fail('same-type-refused:%s' % pname, 'a value object of the field\'s own type was refused (strict=%s): %s' % (strict, ex),
                         {'kind': 'class-blind', 'pair': pname, 'strict': strict})


def _admits(ty, x):
    try:
        ty.clone(x)
        return True
    except Exception:  # noqa
        return False


def check_huge(rep):
    """values the interpreter refuses to print (more than 4300 decimal digits): a violation is still refused, an admitted
    value still accepted, on every construction path"""
    big = 1 << 20000
    cases = [
        ('INTEGER (0..255)', univ.Integer().subtype(subtypeSpec=C.ValueRangeConstraint(0, 255)), [(big, False), (-big, False), (255, True)]),
        ('INTEGER (0|1|2)', univ.Integer().subtype(subtypeSpec=C.SingleValueConstraint(0, 1, 2)), [(big, False), (2, True)]),
        ('INTEGER (0..MAX)', univ.Integer().subtype(subtypeSpec=C.ValueRangeConstraint(0, big * 4)), [(big, True), (-big, False), (big * 8, False)]),
        ('INTEGER (ALL EXCEPT 5)', univ.Integer().subtype(subtypeSpec=C.ConstraintsExclusion(C.SingleValueConstraint(5))),
         [(big, True), (5, False)]),
        ('INTEGER (0..5 | 9)', univ.Integer().subtype(subtypeSpec=C.ConstraintsUnion(C.ValueRangeConstraint(0, 5), C.SingleValueConstraint(9))),
         [(big, False), (-big, False), (9, True)]),
        ('INTEGER (0..5 | 9) nested', univ.Integer().subtype(subtypeSpec=C.ConstraintsIntersection(C.ConstraintsUnion(C.ValueRangeConstraint(0, 5),
          C.ConstraintsUnion(C.SingleValueConstraint(9))), C.ValueRangeConstraint(-1, 100))), [(big, False), (3, True)]),
        ('BIT STRING (SIZE 1..64)', univ.BitString().subtype(subtypeSpec=C.ValueSizeConstraint(1, 64)),
         [(univ.BitString(binValue='10' * 10000), False), (univ.BitString(binValue='10' * 32), True)]),
    ]
    for name, ty, items in cases:
        for v, admitted in items:
            for path, thunk in [('clone', lambda: ty.clone(v)), ('subtype-value', lambda: ty.subtype(v)),
                                ('init', lambda: type(ty)(v, subtypeSpec=ty.subtypeSpec))]:
                rep.evaluations += 1
                rep.count('huge-values')
                case = {'kind': 'huge', 'type': name, 'path': path, 'bits': int(v).bit_length() if not isinstance(v, univ.BitString) else len(v)}
                try:
                    thunk()
                    ok = True
                except error.PyAsn1Error:
                    ok = False
                except Exception as ex:  # noqa
                    rep.fail('construct-leak-%s:huge' % type(ex).__name__, '%s of a %d-bit value raised %s' % (path, case['bits'], type(ex).__name__), case)
                    continue
                if ok and not admitted:
                    rep.fail('scalar-op-bypass:huge:%s' % path, 'constructed a %d-bit value outside %s' % (case['bits'], name), case)
                if not ok and admitted:
                    rep.fail('construct-rejects-member:huge:%s' % path, 'a %d-bit value inside %s was refused' % (case['bits'], name), case)


def run(rep, tier, seed):
    common.prove(rep)
    rng = common.rng_for(seed, 'C14')
    drv = common.Driver()
    k = 1 if tier == 'quick' else 30
    rep.rule = ('CONSTR: random expression trees over the 12 public constraint classes, depth 1..4 (+1 under WITH COMPONENTS), per value '
                'family (int / bytes / str / SEQUENCE OF mapping / SEQUENCE mapping), candidates = every literal, bound and size in '
                'the tree -1/0/+1, strings inside/outside each alphabet, all presence subsets, plus foreign-kind values (15 % of '
                'trees); CHAIN: T0 declared 5 ways x 1..3 subtype() steps x {no, explicit, implicit} tag; SCALAR: every operator of '
                'Integer/OctetString/BitString/char strings with operands placing the result at, inside and outside each bound, '
                'slices at every size bound, decoding of ber/cer/der/chunked/indefinite forms; GATE: ber/ber-indef/cer/der encoders '
                'on SequenceOf/SetOf/Sequence/Set values; non-trivial = expression depth >= 2 or a chain/scalar/gate case; distinct '
                'by canonical (expression, value)')
    rep.assumptions = ['record components and collection elements are abstracted to scalar payloads (no nested WITH COMPONENTS)',
                       'REAL / OBJECT IDENTIFIER payloads are outside the value universe (REAL: recorded finding)',
                       'a value constraint inside WITH COMPONENTS applied to an ABSENT component is outside the domain (pyasn1 raises TypeError)',
                       'bare-Python-value encoding (asn1Spec=) is C17\'s; decoding of constructed values against size constraints is C10\'s',
                       'hash collisions between different constraint objects are ignored (set membership = structural equality)']
    # the leaf tests (_testValue of ValueRange / ValueSize / SingleValue / PermittedAlphabet) are translated from the source on
    # every run (gen/py2lean.py) and proved equal to the model's leaves (Props/C14 source_*_is_model); the translations are run
    # against the real methods here
    from harness import kernels
    kernels.obligations(rep, ['rangeTest', 'sizeTest', 'singleValueTest', 'alphabetTest', 'intersectionTest', 'unionTest', 'exclusionTest'])
    kernels.check(rep, drv, seed, 150 if tier == 'quick' else 5000, which=('constraintLeaves',))
    run_corpus(rep, drv, rng)
    audit_sources(rep)
    known_finding_probes(rep)
    check_huge(rep)
    check_fresh_container_assignment(rep)
    rep.case('gate on all-mandatory records', nontrivial=True)
    check_gate_all_mandatory(rep)
    rep.case('occupied slot reassignment', nontrivial=True)
    check_occupied_slot_reassignment(rep)
    check_class_blind_assignment(rep)
    rep.case('retyped containers', nontrivial=True)
    check_retyped_containers(rep)
    op_constr(rep, drv, rng, 10000 * k, 12)
    op_chain(rep, drv, rng, 1500 * k)
    op_super_pairs(rep, drv, rng, 3000 * k)
    op_scalar(rep, drv, rng, 500 * k)
    op_gate(rep, drv, rng, 800 * k)
    op_sizespec(rep, drv, rng, 400 * k)
    drv.close()


def replay(path):
    d = json.load(open(path))
    drv = common.Driver()
    rng = common.rng_for(d.get('seed', 0), 'C14', 'replay')
    still = 0
    cases = [f['replay'] for f in d.get('failures', [])] + [x['case'] for x in d.get('correspondence_disagreements', [])
                                                            if isinstance(x.get('case'), dict)]
    for r in cases:
        rep = common.Report('C14', 'quick', 0)
        rep.known = []
        try:
            known = run_case(rep, drv, rng, r)
        except (KeyError, IndexError, ValueError, TypeError) as ex:
            known = False
            print('replay: malformed case (%s: %s)' % (type(ex).__name__, ex))
        if not known:
            print('replay: cannot re-run %s' % (json.dumps(r)[:300],))
            continue
        bad = bool(rep.failures or rep.corr_disagreements)
        print('replay %s: %s' % (json.dumps(r)[:200], 'STILL FAILS' if bad else 'passes now'))
        for f in rep.failures[:3]:
            print('   ', f['signature'], '-', f['what'])
        still += bad
    if not cases:
        print(json.dumps(d, indent=1)[:4000])
    drv.close()
    return 1 if still else 0
