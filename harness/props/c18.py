"""C18 — open types (ANY DEFINED BY) resolve by governing value and round-trip (DESIGN §5 C18)."""
import json

from harness import common, gen, codec, engine, wire
from pyasn1.type import univ, namedtype, opentype, tag
from pyasn1 import error

MODES = [('ber', True), ('ber', False), ('cer', False), ('der', True)]


def enc(cdc, obj, defMode):
    kw = {}
    if cdc == 'ber':
        kw = dict(defMode=defMode)
    return codec.ENC[cdc].encode(obj, **kw)


class Shape(object):
    """one container type with an ANY (or SET OF/SEQUENCE OF ANY) field governed by `id`"""

    def __init__(self, container, id_kind, tagging, multi, typemap, optional=False):
        self.container = container      # 'seq' | 'set'
        self.id_kind = id_kind          # 'int' | 'oid'
        self.tagging = tagging          # None | ('i', n) | ('e', n)
        self.multi = multi              # None | 'seqof' | 'setof'
        self.typemap = typemap          # {governing value: type tuple}
        self.optional = optional        # the open type field is declared OPTIONAL (and present in every value built)
        any_spec = univ.Any()
        if tagging:
            tg = tag.Tag(tag.tagClassContext, tag.tagFormatSimple, tagging[1])
            any_spec = any_spec.subtype(explicitTag=tg) if tagging[0] == 'e' else any_spec.subtype(implicitTag=tg)
        self.any_spec = any_spec
        field = any_spec
        if multi == 'seqof':
            field = univ.SequenceOf(componentType=any_spec)
        elif multi == 'setof':
            field = univ.SetOf(componentType=any_spec)
        self.schemas = {g: gen.build(t) for g, t in typemap.items()}
        full = {self.key(g): s for g, s in self.schemas.items()}
        # the type map is the caller's dict, kept by reference: mappings may be registered after the schema is declared
        # (late: the dict is empty at declaration; half: one entry at declaration, the rest later)
        self.map_history = ['declared', 'late', 'half'][(len(typemap) + (tagging[1] if tagging else 0)) % 3]
        the_map = dict(full) if self.map_history == 'declared' else {}
        if self.map_history == 'half' and full:
            k0 = sorted(full, key=str)[0]
            the_map[k0] = full[k0]
        self.open = opentype.OpenType('id', the_map)
        self.the_map = the_map
        id_type = univ.Integer() if id_kind == 'int' else univ.ObjectIdentifier()
        cls = univ.Sequence if container == 'seq' else univ.Set
        self.schema = cls(componentType=namedtype.NamedTypes(
            namedtype.NamedType('id', id_type),
            (namedtype.OptionalNamedType if optional else namedtype.NamedType)('value', field, openType=self.open)))
        the_map.update(full)

    def key(self, g):
        return univ.Integer(g) if self.id_kind == 'int' else univ.ObjectIdentifier(g)

    def describe(self):
        return '%s{id %s, value %s%sANY%s} map=%s' % (
            self.container.upper(), self.id_kind, (self.multi.upper() + ' ') if self.multi else '',
            ('[%d] %s ' % (self.tagging[1], 'EXPLICIT' if self.tagging[0] == 'e' else 'IMPLICIT')) if self.tagging else '',
            ' OPTIONAL' if self.optional else '',
            {str(g): gen.ty_sexp(t) for g, t in self.typemap.items()})

    def build(self, g, inners, inner_types, own_collection=False):
        obj = self.schema.clone()
        obj['id'] = g
        if self.multi and own_collection:
            # the typed inner values in a collection object the caller built and assigns whole (valid: the field is an
            # open type); the element tagging is the field's, not the collection's
            coll = (univ.SequenceOf if self.multi == 'seqof' else univ.SetOf)(componentType=univ.Any())
            for t, w in zip(inner_types, inners):
                coll.append(gen.build_value(t, w))
            obj['value'] = coll
        elif self.multi:
            for t, w in zip(inner_types, inners):
                obj['value'].append(gen.build_value(t, w))
        else:
            obj['value'] = gen.build_value(inner_types[0], inners[0])
        return obj


def signature(shape, g_mapped, mode, what):
    return '%s:%s:%s:%s:%s' % (what, shape.container, 'untagged' if not shape.tagging else shape.tagging[0] + 'tag',
                               shape.multi or 'single', '%s-%s' % (mode[0], 'def' if mode[1] else 'indef'))


def check_shape(rep, rng, shape, g, inner_types, inners, mapped):
    replay = {'kind': 'opentype', 'shape': shape.describe(), 'id': str(g), 'inner_types': [gen.ty_sexp(t) for t in inner_types],
              'inner_values': [gen.val_sexp(w) for w in inners]}
    for mode in MODES:
        cdc, dm = mode
        rp = dict(replay, codec=cdc, defMode=dm)
        if shape.multi:
            # the same record with the inner values in a collection the caller built: same octets
            try:
                alt = enc(cdc, shape.build(g, inners, inner_types, own_collection=True), dm)
                ref = enc(cdc, shape.build(g, inners, inner_types), dm)
            except Exception:  # noqa
                alt = ref = None
            if alt != ref:
                rep.fail(signature(shape, mapped, mode, 'own-collection'), 'inner values in a caller-built collection give %s, '
                         'appended to the field %s' % (alt.hex()[:100], ref.hex()[:100]), rp)
        try:
            obj = shape.build(g, inners, inner_types)
            data = enc(cdc, obj, dm)
        except Exception as e:  # noqa
            from harness import sigs
            sig = signature(shape, mapped, mode, 'encode-' + codec.classify(e))
            if isinstance(e, OverflowError) and any(sigs.has_real_default(t) for t in inner_types):
                sig = 'T12-real-default-through-float'
            elif codec.classify(e) == 'liberr' and any(sigs.has_constructed_default(t) for t in inner_types):
                sig = 'T11-default-of-constructed-type'
            rep.fail(sig, 'encoding a value with a typed inner value: %r' % (e,), rp)
            continue
        rp['bytes'] = data.hex()
        # expected raw contents: the complete encoding of each inner value in the same codec/mode
        try:
            raws = [enc(cdc, gen.build_value(t, w), dm) for t, w in zip(inner_types, inners)]
        except Exception:  # noqa
            continue
        if (cdc == 'cer' or not dm) and any(wire.e1_applies(t, w) for t, w in zip(inner_types, inners)):
            rep.count('skipped-stray-eoo-region')
            continue
        rep.count('mode=%s/%s' % (cdc, 'def' if dm else 'indef'))
        # the same record holding the inner values as pre-encoded octets is the same abstract value: same octets
        # (in particular the same canonical order of SET members and SET OF elements)
        try:
            obj2 = shape.schema.clone()
            obj2['id'] = g
            if shape.multi:
                for raw in raws:
                    obj2['value'].append(shape.any_spec.clone(raw))
            else:
                obj2['value'] = shape.any_spec.clone(raws[0])
            data2 = enc(cdc, obj2, dm)
        except Exception as e:  # noqa
            rep.fail(signature(shape, mapped, mode, 'raw-route-' + codec.classify(e)),
                     'encoding the record with pre-encoded inner values: %r' % (e,), rp)
            data2 = None
        if data2 is not None and data2 != data:
            rep.fail(signature(shape, mapped, mode, 'typed-vs-preencoded'),
                     'typed inner value gives %s, the same value pre-encoded gives %s' % (data.hex()[:120], data2.hex()[:120]), rp)
        model_correspondence(rep, shape, g, inner_types, inners, mapped, mode, data, raws, rp)
        for resolve in (True, False):
            kw = {'decodeOpenTypes': True} if resolve else {}
            try:
                res, rest = codec.DEC[cdc].decode(data, asn1Spec=shape.schema, **kw)
            except Exception as e:  # noqa
                rep.fail(signature(shape, mapped, mode, ('resolve-' if resolve else 'raw-') + codec.classify(e)),
                         'decode(decodeOpenTypes=%s): %r' % (resolve, e), rp)
                continue
            if rest != b'':
                rep.fail(signature(shape, mapped, mode, 'remainder'), 'remainder %s' % rest.hex(), rp)
                continue
            try:
                field = res['value']
                items = [field[i] for i in range(len(field))] if shape.multi else [field]
            except Exception as e:  # noqa
                rep.fail(signature(shape, mapped, mode, 'field-access-' + codec.classify(e)), repr(e), rp)
                continue
            if len(items) != len(inners):
                rep.fail(signature(shape, mapped, mode, 'count'), '%d elements, expected %d' % (len(items), len(inners)), rp)
                continue
            for it, t, w, raw in zip(sorted(items, key=lambda x: 0) if False else items, inner_types, inners, raws):
                if resolve and mapped:
                    try:
                        a = gen.abstract(t, it)
                        ok = gen.val_equiv(t, a, w)
                    except Exception as e:  # noqa
                        ok = False
                        a = repr(e)
                    if shape.multi == 'setof':
                        ok = ok or any_match(items, t, w)
                    if not ok:
                        rep.fail(signature(shape, mapped, mode, 'resolved-value'),
                                 'inner value decoded as %r, expected %s' % (a if not isinstance(a, tuple) else gen.val_sexp(a)[:120], gen.val_sexp(w)[:120]), rp)
                        break
                else:
                    try:
                        got = it.asOctets()
                    except Exception as e:  # noqa
                        rep.fail(signature(shape, mapped, mode, 'raw-not-octets'), 'field is %r' % (it,), rp)
                        break
                    want = raw
                    okraw = got == want
                    if shape.multi == 'setof':
                        okraw = got in raws
                    if not okraw:
                        rep.fail(signature(shape, mapped, mode, 'raw-differs'),
                                 'field holds %s, complete encoding of the inner value is %s' % (got.hex()[:100], want.hex()[:100]), rp)
                        break


_DRV = [None]


def model_correspondence(rep, shape, g, inner_types, inners, mapped, mode, data, raws, rp):
    """the Lean model of open types (lean/Asn1/OpenType.lean: encodeOpen / decodeOpen, about which Props.C18 proves the
    round trip) against the code: same octets for the record with a typed inner value; the field the model's decoder
    captures is the inner encoding; the model's second pass returns the inner value.  SEQUENCE container, single ANY
    field (the part the model covers)."""
    if shape.container != 'seq' or shape.multi or shape.optional or _DRV[0] is None:
        return
    from harness import sigs
    t, w = inner_types[0], inners[0]
    if sigs.has_constructed_default(t) or sigs.has_real_default(t) or 'any' in gen.ty_sexp(t):
        return
    drv = _DRV[0]
    cdc, dm = mode
    id_ty = 'int' if shape.id_kind == 'int' else 'oid'
    gs = '(i %d)' % g if shape.id_kind == 'int' else '(oid %s)' % ' '.join(str(x) for x in g)
    at = '(none)' if not shape.tagging else '(%s c %d)' % (shape.tagging[0], shape.tagging[1])
    ts, ws = gen.ty_sexp(t), gen.val_sexp(w)
    ans = drv.ask('OPENENC %s %d 0 %s %s %s %s %s' % (cdc, 1 if dm else 0, id_ty, at, gs, ts, ws))
    rep.corr_checked += 1
    if ans != 'ok ' + data.hex():
        rep.disagree('OPENENC', rp, ans[:200], data.hex()[:200])
        return
    for resolve in (0, 1):
        ans = drv.ask('OPENDEC %s %s %s %d %s %s' % (cdc, id_ty, at, resolve, (data + b'\x05\x00').hex(), ts if mapped else '-'))
        rep.corr_checked += 1
        p = ans.split(' ')
        if p[0] != 'ok':
            rep.disagree('OPENDEC', dict(rp, resolve=resolve), ans[:200], 'the code decodes %s' % data.hex()[:100])
            continue
        # ok <g> <raw> <inner|-> <rest> : g and inner are s-expressions (may contain spaces) - parse from both ends
        sx = gen.parse_sexps(ans[3:])
        gm, rawm, innerm, restm = sx[0], sx[1], sx[2], sx[3]
        if rawm != raws[0].hex() or restm != '0500':
            rep.disagree('OPENDEC', dict(rp, resolve=resolve), 'raw %s rest %s' % (str(rawm)[:100], restm), 'raw %s rest 0500' % raws[0].hex()[:100])
            continue
        if resolve and mapped:
            try:
                wm = gen.val_of_sexp(innerm)
                same = gen.val_equiv(t, wm, w)
            except Exception:  # noqa
                same = False
            if not same:
                rep.disagree('OPENDEC', dict(rp, resolve=resolve), 'inner %s' % str(innerm)[:150], 'inner %s' % ws[:150])
        elif innerm != '-':
            rep.disagree('OPENDEC', dict(rp, resolve=resolve), 'inner %s' % str(innerm)[:100], 'inner left unresolved')


def check_map_history(rep, rng):
    """the type map is the caller's dict, held by reference: a decode resolves with whatever the map holds for the governing
    value AT THAT MOMENT - after an entry has been used, re-registered to another type, overridden by the caller for one
    call, removed again"""
    ta = ('seq', [('r', None, ('int',))])
    tb = ('seq', [('r', None, ('str', 4)), ('r', None, ('bool',))])
    tc = ('seqof', ('int',))
    wa, wb, wc = ('seq', [('i', 7)]), ('seq', [('s', b'ab'), ('b', True)]), ('of', [('i', 1), ('i', 2)])
    for container in ('seq', 'set'):
        for id_kind, key in (('int', 3), ('oid', (1, 3, 6, 1))):
            for tagging in (None, ('i', 5), ('e', 5)):
                if container == 'set' and tagging is None:
                    continue
                for mode in MODES:
                    cdc, dm = mode
                    shape = Shape(container, id_kind, tagging, None, {key: ta})
                    the_map = shape.open._OpenType__typeMap if hasattr(shape.open, '_OpenType__typeMap') else None
                    # reach the caller's dict through the public mapping protocol if the attribute is not there
                    k = shape.key(key)
                    case = {'kind': 'map-history', 'shape': shape.describe(), 'codec': cdc, 'defMode': dm}

                    def run(t, w, expect, step, **kw):
                        rep.evaluations += 1
                        rep.count('map-history-steps')
                        try:
                            data = enc(cdc, shape.build(key, [w], [t]), dm)
                            res, rest = codec.DEC[cdc].decode(data, asn1Spec=shape.schema, decodeOpenTypes=True, **kw)
                            field = res['value']
                        except Exception as e:  # noqa
                            rep.fail('map-history:%s:%s' % (step, codec.classify(e)), 'step %s: %r' % (step, e), dict(case, step=step))
                            return
                        if expect == 'raw':
                            try:
                                raw = enc(cdc, gen.build_value(t, w), dm)
                                ok = field.asOctets() == raw
                            except Exception:  # noqa
                                ok = False
                        else:
                            try:
                                ok = gen.val_equiv(t, gen.abstract(t, field), w)
                            except Exception:  # noqa
                                ok = False
                        if not ok:
                            rep.fail('map-history:%s' % step, 'step %s: the field came back as %s' % (
                                step, str(field.prettyPrint())[:120].replace('\n', ' ')), dict(case, step=step))
                    if (cdc == 'cer' or not dm):
                        pass
                    mp = shape.the_map
                    run(ta, wa, 'resolved', '1-first-use')
                    mp[k] = gen.build(tb)
                    run(tb, wb, 'resolved', '2-re-registered')
                    run(tc, wc, 'resolved', '3-caller-override', openTypes={k: gen.build(tc)})
                    run(tb, wb, 'resolved', '4-default-again')
                    del mp[k]
                    run(tb, wb, 'raw', '5-removed')
                    mp[k] = gen.build(ta)
                    run(ta, wa, 'resolved', '6-registered-again')


def check_nested_caller_map(rep):
    """an open type whose resolved value holds an open type field of its own: the map the caller passes to decode() governs
    the inner field as well (it is handed on to the second-pass decode of the outer field)"""
    from pyasn1.type import univ, char, namedtype, opentype, tag as ptag
    for container in (univ.Sequence, univ.Set):
        for wrap in (None, 'implicit', 'explicit'):
            if container is univ.Set and wrap is None:
                continue

            def anyf(n):
                a = univ.Any()
                if wrap == 'implicit':
                    a = a.subtype(implicitTag=ptag.Tag(ptag.tagClassContext, ptag.tagFormatSimple, n))
                elif wrap == 'explicit':
                    a = a.subtype(explicitTag=ptag.Tag(ptag.tagClassContext, ptag.tagFormatConstructed, n))
                return a
            inner_map = {1: univ.Integer()}
            inner_t = container(componentType=namedtype.NamedTypes(
                namedtype.NamedType('kind', univ.Integer()),
                namedtype.NamedType('data', anyf(1), openType=opentype.OpenType('kind', inner_map))))
            outer_t = container(componentType=namedtype.NamedTypes(
                namedtype.NamedType('id', univ.Integer()),
                namedtype.NamedType('value', anyf(2), openType=opentype.OpenType('id', {3: inner_t}))))
            plans = [('inner-kind-only-in-caller-map', 7, char.UTF8String('hi'), {7: char.UTF8String()}),
                     ('caller-map-overrides-inner-default', 1, univ.Boolean(True), {1: univ.Boolean()}),
                     ('inner-default-without-caller-entry', 1, univ.Integer(5), {9: univ.Null()}),
                     ('no-caller-map', 1, univ.Integer(6), None)]
            for cdc, dm in MODES:
                for pname, kind, payload, caller in plans:
                    rep.evaluations += 1
                    rep.count('nested-caller-map')
                    case = {'kind': 'nested-caller-map', 'container': container.__name__, 'any': wrap or 'untagged', 'codec': cdc,
                            'defMode': dm, 'plan': pname}
                    try:
                        inner = inner_t.clone()
                        inner['kind'] = kind
                        inner['data'] = inner_t.componentType[1].asn1Object.clone(enc(cdc, payload, dm))
                        outer = outer_t.clone()
                        outer['id'] = 3
                        outer['value'] = outer_t.componentType[1].asn1Object.clone(enc(cdc, inner, dm))
                        data = enc(cdc, outer, dm)
                        kw = {'openTypes': caller} if caller is not None else {}
                        res, rest = codec.DEC[cdc].decode(data, asn1Spec=outer_t, decodeOpenTypes=True, **kw)
                        got = res['value']['data']
                    except Exception as e:  # noqa
                        rep.fail('nested-caller-map:%s:%s' % (pname, codec.classify(e)), '%s: %r' % (pname, e), case)
                        continue
                    if rest or type(got) is not type(payload) or not got.isValue or got != payload:
                        rep.fail('nested-caller-map:%s' % pname, '%s: the inner open type field came back as %s, expected %s' % (
                            pname, str(got.prettyPrint())[:80].replace('\n', ' '), payload.prettyPrint()), dict(case, bytes=data.hex()))


def check_two_open_type_fields(rep):
    """a record with a SET OF / SEQUENCE OF open type field (tagged ANY elements) AND a second open type field whose typed
    value is itself a SEQUENCE OF: what the encoder does for the elements of the first must not reach the second.  The
    typed-value encoding equals the encoding of the same record with the inner values given pre-encoded (ANY), and decodes
    back to the typed values."""
    from pyasn1.type import univ, namedtype, opentype, tag as ptag

    def ctx(n, explicit):
        t = ptag.Tag(ptag.tagClassContext, ptag.tagFormatConstructed if explicit else ptag.tagFormatSimple, n)
        return dict(explicitTag=t) if explicit else dict(implicitTag=t)
    ints = univ.SequenceOf(componentType=univ.Integer())
    for container in (univ.Sequence, univ.Set):
        for coll in (univ.SetOf, univ.SequenceOf):
            for el_explicit in (True, False):
                for order in ('coll-first', 'coll-last'):
                    any_el = univ.Any().subtype(**ctx(3, el_explicit))
                    attrs_t = coll(componentType=any_el).subtype(implicitTag=ptag.Tag(ptag.tagClassContext, ptag.tagFormatConstructed, 5 if order == 'coll-last' else 0))
                    params_t = univ.Any().subtype(**ctx(1, True))
                    fields = [namedtype.NamedType('id', univ.Integer()),
                              namedtype.NamedType('attrs', attrs_t, openType=opentype.OpenType('id', {5: univ.Integer()})),
                              namedtype.NamedType('kind', univ.Integer().subtype(implicitTag=ptag.Tag(ptag.tagClassContext, ptag.tagFormatSimple, 2))),
                              namedtype.NamedType('params', params_t, openType=opentype.OpenType('kind', {9: ints}))]
                    schema = container(componentType=namedtype.NamedTypes(*fields))
                    inner = ints.clone()
                    inner.extend([7, 8])
                    for cdc, dm in MODES:
                        rep.evaluations += 1
                        rep.count('two-open-type-fields')
                        case = {'kind': 'two-open-type-fields', 'container': container.__name__, 'collection': coll.__name__,
                                'element': 'explicit' if el_explicit else 'implicit', 'order': order, 'codec': cdc, 'defMode': dm}
                        try:
                            typed = schema.clone()
                            typed['id'] = 5
                            typed['attrs'].extend([univ.Integer(1), univ.Integer(2)])
                            typed['kind'] = 9
                            typed['params'] = inner
                            pre = schema.clone()
                            pre['id'] = 5
                            pre['attrs'].extend([any_el.clone(enc(cdc, univ.Integer(1), dm)), any_el.clone(enc(cdc, univ.Integer(2), dm))])
                            pre['kind'] = 9
                            pre['params'] = params_t.clone(enc(cdc, inner, dm))
                            d_typed = enc(cdc, typed, dm)
                            d_pre = enc(cdc, pre, dm)
                        except Exception as e:  # noqa
                            rep.fail('two-open-type-fields:encode-' + codec.classify(e), repr(e)[:200], case)
                            continue
                        if d_typed != d_pre:
                            rep.fail('two-open-type-fields:typed-differs-from-preencoded',
                                     'typed inner values encode as %s, the same values pre-encoded as %s' % (d_typed.hex(), d_pre.hex()),
                                     dict(case, bytes=d_typed.hex()))
                            continue
                        try:
                            res, rest = codec.DEC[cdc].decode(d_typed, asn1Spec=schema, decodeOpenTypes=True)
                            ok = (not rest and [int(x) for x in res['params']] == [7, 8] and sorted(int(x) for x in res['attrs']) == [1, 2])
                        except Exception as e:  # noqa
                            ok = False
                        if not ok:
                            rep.fail('two-open-type-fields:roundtrip', 'the encoding %s does not decode back to the typed values' % d_typed.hex(),
                                     dict(case, bytes=d_typed.hex()))


def check_record_shapes_around_open_type(rep):
    """the open type field resolves whatever else the record declares: members sharing a tag before it (legal in a SEQUENCE
    when a mandatory member separates their uses), OPTIONAL / DEFAULT members around it (present and absent), the governing
    member last, a nested record ahead of it; single ANY, SEQUENCE OF ANY and SET OF ANY fields; every mode; resolution on, off
    and by a caller-supplied map on a schema declared with an empty one"""
    from pyasn1.type import univ, char, namedtype, opentype, tag as ptag
    ints = univ.SequenceOf(componentType=univ.Integer())
    inner_ints = ints.clone()
    inner_ints.extend([7, 8])
    tmap = {1: univ.OctetString(), 2: ints, 3: char.UTF8String()}
    inners = {1: univ.OctetString(b'ab'), 2: inner_ints, 3: char.UTF8String(u'h\xe9')}

    def shapes(field, otype):
        NT, ONT, DNT = namedtype.NamedType, namedtype.OptionalNamedType, namedtype.DefaultedNamedType
        value = NT('value', field, openType=otype)
        yield 'same-tag members before', [NT('id', univ.Integer()), NT('first', univ.OctetString()), NT('second', univ.OctetString()), value], {'first': b'p', 'second': b'q'}
        yield 'same-tag members around', [NT('first', univ.Boolean()), NT('id', univ.Integer()), NT('second', univ.Boolean()), value], {'first': True, 'second': False}
        yield 'optional absent before', [NT('id', univ.Integer()), ONT('note', univ.Boolean()), value], {}
        yield 'optional present before', [NT('id', univ.Integer()), ONT('note', univ.Boolean()), value], {'note': True}
        yield 'default before, member after', [NT('id', univ.Integer()), DNT('lvl', univ.Boolean(False)), value,
                                               ONT('tail', univ.Null().subtype(implicitTag=ptag.Tag(ptag.tagClassContext, ptag.tagFormatSimple, 9)))], {'tail': b''}
        yield 'record before', [NT('hdr', univ.Sequence(componentType=namedtype.NamedTypes(NT('x', univ.Integer()), NT('y', univ.Integer())))),
                                NT('id', univ.Integer()), value], {'hdr': {'x': 1, 'y': 2}}
    for multi in (None, univ.SequenceOf, univ.SetOf):
        for tagging in (None, 'i', 'e'):
            any_spec = univ.Any()
            if tagging:
                tg = ptag.Tag(ptag.tagClassContext, ptag.tagFormatSimple, 4)
                any_spec = any_spec.subtype(explicitTag=tg) if tagging == 'e' else any_spec.subtype(implicitTag=tg)
            field = multi(componentType=any_spec) if multi else any_spec
            for declared in (True, False):
                for label, fields, others in shapes(field, opentype.OpenType('id', dict(tmap) if declared else {})):
                    schema = univ.Sequence(componentType=namedtype.NamedTypes(*fields))
                    for gid, inner in sorted(inners.items()):
                        for cdc, dm in MODES:
                            rep.evaluations += 1
                            rep.count('record-shapes-around-open-type')
                            case = {'kind': 'record-shape', 'shape': label, 'multi': multi.__name__ if multi else None, 'tagging': tagging,
                                    'map-declared': declared, 'id': gid, 'codec': cdc, 'defMode': dm}
                            try:
                                v = schema.clone()
                                for k_, x_ in others.items():
                                    if isinstance(x_, dict):
                                        for kk_, xx_ in x_.items():
                                            v[k_][kk_] = xx_
                                    else:
                                        v[k_] = x_
                                v['id'] = gid
                                if multi:
                                    v['value'].append(inner)
                                    v['value'].append(inner)
                                else:
                                    v['value'] = inner
                                data = enc(cdc, v, dm)
                                raw = enc(cdc, inner, dm)
                                kw = dict(decodeOpenTypes=True) if declared else dict(openTypes=dict(tmap), decodeOpenTypes=True)
                                res, rest = codec.DEC[cdc].decode(data, asn1Spec=schema, **kw)
                                got = list(res['value']) if multi else [res['value']]
                                ok = (not rest) and len(got) == (2 if multi else 1) and all(type(g) is type(inner) and g == inner for g in got)
                                res0, rest0 = codec.DEC[cdc].decode(data, asn1Spec=schema)
                                got0 = list(res0['value']) if multi else [res0['value']]
                                ok0 = (not rest0) and all(isinstance(g, univ.Any) for g in got0) and (
                                    tagging is not None or all(bytes(g) == raw for g in got0))
                            except Exception as e:  # noqa
                                rep.fail('record-shape:%s' % codec.classify(e), '%s: %r' % (label, e), case)
                                continue
                            if not ok:
                                rep.fail('record-shape:unresolved', '%s: with resolution on the field came back as %s' % (
                                    label, [type(g).__name__ for g in got]), dict(case, bytes=data.hex()))
                            elif not ok0:
                                rep.fail('record-shape:raw', '%s: with resolution off the field is not the inner encoding' % label, dict(case, bytes=data.hex()))


def check_maps_do_not_leak(rep):
    """what one open type field resolves to is decided by its own map and the caller's: two fields of one record governed by
    the same member, whose maps give that governing value different types, each decode by their own map; a caller-supplied map
    handed to several decodes is read, never written - it holds afterwards what it held before, and a later decode of another
    record type whose own map differs is not affected by an earlier one"""
    from pyasn1.type import univ, char, namedtype, opentype, tag as ptag

    def ctx(n):
        return ptag.Tag(ptag.tagClassContext, ptag.tagFormatConstructed, n)
    ints = univ.SequenceOf(componentType=univ.Integer())
    pairs = [('int-vs-octets', univ.Integer(), univ.Integer(5), univ.OctetString(), univ.OctetString(b'ab')),
             ('octets-vs-utf8', univ.OctetString(), univ.OctetString(b'xy'), char.UTF8String(), char.UTF8String(u'xy')),
             ('seqof-vs-bool', ints, (lambda o: (o.extend([1, 2]), o)[1])(ints.clone()), univ.Boolean(), univ.Boolean(True))]
    for container in (univ.Sequence, univ.Set):
        for label, t1, x1, t2, x2 in pairs:
            two = container(componentType=namedtype.NamedTypes(
                namedtype.NamedType('id', univ.Integer()),
                namedtype.NamedType('first', univ.Any().subtype(explicitTag=ctx(0)), openType=opentype.OpenType('id', {1: t1})),
                namedtype.NamedType('second', univ.Any().subtype(explicitTag=ctx(1)), openType=opentype.OpenType('id', {1: t2}))))
            one_a = container(componentType=namedtype.NamedTypes(
                namedtype.NamedType('id', univ.Integer()),
                namedtype.NamedType('value', univ.Any().subtype(explicitTag=ctx(0)), openType=opentype.OpenType('id', {1: t1}))))
            one_b = container(componentType=namedtype.NamedTypes(
                namedtype.NamedType('id', univ.Integer()),
                namedtype.NamedType('value', univ.Any().subtype(explicitTag=ctx(0)), openType=opentype.OpenType('id', {1: t2}))))
            for cdc, dm in MODES:
                for caller in (None, {}, {9: univ.Null()}):
                    rep.evaluations += 1
                    rep.count('maps-do-not-leak')
                    case = {'kind': 'maps-do-not-leak', 'container': container.__name__, 'types': label, 'codec': cdc, 'defMode': dm,
                            'caller-map': None if caller is None else sorted(map(str, caller))}
                    try:
                        v = two.clone()
                        v['id'] = 1
                        v['first'] = x1
                        v['second'] = x2
                        data = enc(cdc, v, dm)
                        a = one_a.clone()
                        a['id'] = 1
                        a['value'] = x1
                        b = one_b.clone()
                        b['id'] = 1
                        b['value'] = x2
                        da, db = enc(cdc, a, dm), enc(cdc, b, dm)
                        kw = dict(decodeOpenTypes=True)
                        if caller is not None:
                            kw['openTypes'] = caller
                        before = None if caller is None else dict(caller)
                        res, rest = codec.DEC[cdc].decode(data, asn1Spec=two, **kw)
                        ra, _ = codec.DEC[cdc].decode(da, asn1Spec=one_a, **kw)
                        rb, _ = codec.DEC[cdc].decode(db, asn1Spec=one_b, **kw)
                        ra2, _ = codec.DEC[cdc].decode(da, asn1Spec=one_a, **kw)
                        got = [(type(o).__name__, bytes(codec.ENC['der'].encode(o)).hex()) for o in (res['first'], res['second'], ra['value'], rb['value'], ra2['value'])]
                        want = [(type(o).__name__, bytes(codec.ENC['der'].encode(o)).hex()) for o in (x1, x2, x1, x2, x1)]
                    except Exception as e:  # noqa
                        rep.fail('maps-do-not-leak:%s' % codec.classify(e), '%s: %r' % (label, e), case)
                        continue
                    if got != want or rest:
                        rep.fail('maps-do-not-leak:resolved-by-another-map', '%s: fields decoded as %s, their own maps give %s' % (label, got, want),
                                 dict(case, bytes=data.hex()))
                    elif caller is not None and (sorted(map(str, caller)) != sorted(map(str, before)) or any(caller[k] is not before[k] for k in before)):
                        rep.fail('maps-do-not-leak:caller-map-written', 'the caller-supplied map held %s before the decodes and %s after' % (
                            sorted(map(str, before)), sorted(map(str, caller))), case)


def check_set_untagged_any(rep):
    """SET { id, value ANY DEFINED BY id } with the ANY left untagged: members of a SET are told apart by tag, the untagged
    ANY stands for every tag no other member has - inner values whose outermost tag differs from the governing member's"""
    from pyasn1.type import univ, char, namedtype, opentype
    ints = univ.SequenceOf(componentType=univ.Integer())
    rec = univ.Sequence(componentType=namedtype.NamedTypes(namedtype.NamedType('f', univ.Boolean()), namedtype.NamedType('s', univ.OctetString())))
    inner_ints = ints.clone()
    inner_ints.extend([7, 8])
    inner_rec = rec.clone()
    inner_rec['f'] = True
    inner_rec['s'] = b'xyz'
    # present but empty inner values: nothing of theirs to write but their own header - the field is still there
    allopt = univ.Sequence(componentType=namedtype.NamedTypes(namedtype.OptionalNamedType('p', univ.Boolean()), namedtype.OptionalNamedType('q', univ.OctetString())))
    strs = univ.SetOf(componentType=univ.OctetString())
    empty_strs = strs.clone()
    empty_strs.clear()
    empty_allopt = allopt.clone()
    empty_allopt.clear()
    for id_t, ids, optional in [(i_, j_, o_) for i_, j_ in ((univ.Integer(), [1, 2, 3, 4, 5, 6]), (univ.ObjectIdentifier(), [(1, 3, 6, 1, k) for k in (1, 2, 3, 4, 5, 6)]))
                                for o_ in (False, True)]:
        inners = [univ.OctetString(b'ab'), char.UTF8String('hi'), inner_ints, inner_rec, empty_strs, empty_allopt]
        if isinstance(id_t, univ.ObjectIdentifier):
            inners[1] = univ.Integer(5)          # an INTEGER inner value is unambiguous when the governing member is an OID
        tmap = dict((k, v.clone() if not hasattr(v, 'componentType') else {id(inner_ints): ints, id(inner_rec): rec, id(empty_strs): strs, id(empty_allopt): allopt}[id(v)]) for k, v in zip(ids, inners))
        for k in list(tmap):
            if not hasattr(tmap[k], 'componentType'):
                tmap[k] = type(tmap[k])()
        schema = univ.Set(componentType=namedtype.NamedTypes(
            namedtype.NamedType('id', id_t), (namedtype.OptionalNamedType if optional else namedtype.NamedType)('value', univ.Any(), openType=opentype.OpenType('id', tmap))))
        for gid, inner in zip(ids, inners):
            for cdc, dm in MODES:
                for resolve in (True, False):
                    rep.evaluations += 1
                    rep.count('set-untagged-any')
                    case = {'kind': 'set-untagged-any', 'optional': optional, 'id': str(gid), 'inner': type(inner).__name__, 'codec': cdc, 'defMode': dm, 'resolve': resolve}
                    try:
                        v = schema.clone()
                        v['id'] = gid
                        v['value'] = inner
                        data = enc(cdc, v, dm)
                        raw = enc(cdc, inner, dm)
                        res, rest = codec.DEC[cdc].decode(data, asn1Spec=schema, decodeOpenTypes=resolve)
                        got = res['value']
                    except Exception as e:  # noqa
                        rep.fail('set-untagged-any:%s' % codec.classify(e), 'resolve=%s: %r' % (resolve, e), case)
                        continue
                    try:
                        if not got.isValue:
                            ok, shown = False, 'absent (a valueless placeholder)'
                        elif resolve:
                            ok, shown = (not rest) and type(got) is type(inner) and got == inner, None
                        else:
                            ok, shown = (not rest) and bytes(got) == raw, None
                        if shown is None:
                            shown = str(got.prettyPrint())[:80].replace('\n', ' ')
                    except Exception as e:  # noqa
                        ok, shown = False, 'unreadable (%s)' % type(e).__name__
                    if not ok:
                        rep.fail('set-untagged-any:value', 'resolve=%s: the field came back as %s' % (resolve, shown),
                                 dict(case, bytes=data.hex()))


def check_defaulted_governor(rep):
    """the governing field declared DEFAULT: when it holds its default the canonical codecs (and BER, for a field never set)
    leave it out of the encoding; it still governs - the decoder resolves by the default value. Both the default and another
    governing value, INTEGER and OID, SEQUENCE and SET, single ANY and SEQUENCE OF / SET OF ANY, every codec and mode, default
    map and caller map"""
    from pyasn1.type import univ, char, namedtype, opentype, tag as tg
    for container in (univ.Sequence, univ.Set):
        for id_t, dflt, other in ((univ.Integer, 1, 2), (univ.Integer, 0, -1), (univ.ObjectIdentifier, (1, 3, 6, 1), (2, 5, 4))):
            for multi in (None, univ.SequenceOf, univ.SetOf):
                for explicit_set in (False, True):
                    any_spec = univ.Any().subtype(explicitTag=tg.Tag(tg.tagClassContext, tg.tagFormatSimple, 3))
                    field = any_spec if multi is None else multi(componentType=any_spec)
                    tmap = {id_t(dflt): univ.OctetString(), id_t(other): char.UTF8String()}
                    schema = container(componentType=namedtype.NamedTypes(
                        namedtype.DefaultedNamedType('id', id_t(dflt)),
                        namedtype.NamedType('value', field, openType=opentype.OpenType('id', tmap))))
                    for gid, inner in ((dflt, univ.OctetString(b'ab')), (other, char.UTF8String('hi'))):
                        for cdc, dm in MODES:
                            for how in ('resolve', 'caller-map', 'raw'):
                                rep.evaluations += 1
                                rep.count('defaulted-governor')
                                case = {'kind': 'defaulted-governor', 'container': container.__name__, 'id': str(gid), 'default': str(dflt),
                                        'multi': multi.__name__ if multi else None, 'codec': cdc, 'defMode': dm, 'how': how,
                                        'id-set-explicitly': explicit_set}
                                try:
                                    v = schema.clone()
                                    if gid != dflt or explicit_set:
                                        v['id'] = gid
                                    if multi is None:
                                        v['value'] = inner
                                    else:
                                        v['value'].extend([inner, inner.clone(inner.asOctets() + b'z')])
                                    data = enc(cdc, v, dm)
                                    raws = [enc(cdc, inner, dm), enc(cdc, inner.clone(inner.asOctets() + b'z'), dm)]
                                    kw = {'resolve': dict(decodeOpenTypes=True), 'raw': {},
                                          'caller-map': dict(decodeOpenTypes=True, openTypes={id_t(dflt): univ.OctetString(), id_t(other): char.UTF8String()})}[how]
                                    res, rest = codec.DEC[cdc].decode(data, asn1Spec=schema, **kw)
                                    got = [res['value']] if multi is None else list(res['value'])
                                except Exception as e:  # noqa
                                    rep.fail('defaulted-governor:%s' % codec.classify(e), '%s: %r' % (how, e), case)
                                    continue
                                want = [inner] if multi is None else [inner, inner.clone(inner.asOctets() + b'z')]
                                if how == 'raw':
                                    ok = (not rest) and [bytes(g) for g in got] == raws[:len(want)]
                                else:
                                    ok = (not rest) and len(got) == len(want) and all(type(g) is type(w) and g == w for g, w in zip(got, want))
                                if not ok:
                                    rep.fail('defaulted-governor:value', '%s: the field came back as %s' % (
                                        how, [type(g).__name__ + ':' + str(g.prettyPrint())[:40] for g in got]), dict(case, bytes=data.hex()))


def any_match(items, t, w):
    for it in items:
        try:
            if gen.val_equiv(t, gen.abstract(t, it), w):
                return True
        except Exception:  # noqa
            pass
    return False


def check_override(rep, rng, shape, g, t_default, t_override, w):
    """a caller-supplied map takes precedence over the default one"""
    replay = {'kind': 'override', 'shape': shape.describe(), 'id': str(g), 'override': gen.ty_sexp(t_override), 'value': gen.val_sexp(w)}
    for mode in MODES:
        cdc, dm = mode
        if (cdc == 'cer' or not dm) and wire.e1_applies(t_override, w):
            continue        # stray end-of-octets region (finding E1)
        try:
            obj = shape.build(g, [w], [t_override])
            data = enc(cdc, obj, dm)
            res, rest = codec.DEC[cdc].decode(data, asn1Spec=shape.schema, openTypes={shape.key(g): gen.build(t_override)})
            a = gen.abstract(t_override, res['value'])
            if not gen.val_equiv(t_override, a, w):
                rep.fail(signature(shape, True, mode, 'override-value'), 'override map not applied: %s' % gen.val_sexp(a)[:100], dict(replay, bytes=data.hex()))
        except Exception as e:  # noqa
            if (cdc == 'cer' or not dm) and wire.e1_applies(t_override, w):
                continue
            from harness import sigs
            sig = signature(shape, True, mode, 'override-' + codec.classify(e))
            if isinstance(e, OverflowError) and sigs.has_real_default(t_override):
                sig = 'T12-real-default-through-float'      # same attribution as in check_shape
            rep.fail(sig, repr(e), replay)


def run(rep, tier, seed):
    common.prove(rep)
    rng = common.rng_for(seed, 'C18')
    n = 400 if tier == "quick" else 8000
    rep.rule = ('containers {SEQUENCE, SET} x governing id {INTEGER, OID} x ANY field {untagged, [n] IMPLICIT, [n] EXPLICIT} x '
                '{single, SEQUENCE OF, SET OF} x random type maps into the schema universe (scalar and constructed inner types) x '
                '{BER definite, BER indefinite, CER, DER} x {decodeOpenTypes on/off, mapped/unmapped id, openTypes override}; '
                'non-trivial = constructed inner type or tagged ANY field')
    rep.assumptions = ['in the generated stream SET containers get a tagged ANY field (an untagged one is ambiguous for inner values sharing the tag of another member); SET with an untagged ANY is exercised by a dedicated sweep with unambiguous inner values']
    g0 = gen.Gen(rng, max_depth=1, allow_any=False)
    _DRV[0] = common.Driver()
    # what an ANY field captures is translated from the source on every run (GenK.anyCapture = AnyPayloadDecoder.valueDecoder;
    # Props/C18 source_untagged_any_holds_whole_encoding / source_tagged_any_holds_contents) and compared with the real decoder
    from harness import kernels
    kernels.obligations(rep, ['anyCapture'])
    kernels.check(rep, _DRV[0], seed, 150 if tier == 'quick' else 6000, which=('anyCapture',))
    check_map_history(rep, rng)
    rep.case('nested caller map', nontrivial=True)
    check_nested_caller_map(rep)
    rep.case('two open type fields', nontrivial=True)
    check_two_open_type_fields(rep)
    rep.case('record shapes around the open type field', nontrivial=True)
    check_record_shapes_around_open_type(rep)
    rep.case('maps do not leak', nontrivial=True)
    check_maps_do_not_leak(rep)
    rep.case('set with untagged any', nontrivial=True)
    check_set_untagged_any(rep)
    rep.case('defaulted governing field', nontrivial=True)
    check_defaulted_governor(rep)
    for i in range(n):
        container = rng.choice(['seq', 'seq', 'set'])
        id_kind = rng.choice(['int', 'oid'])
        tagging = rng.choice([None, ('i', rng.randrange(0, 5)), ('e', rng.randrange(0, 5))])
        multi = rng.choice([None, None, 'seqof', 'setof'])
        if container == 'set' and tagging is None:
            # an untagged ANY member makes a SET ambiguous (X.680 demands distinct tags): not a legal type
            tagging = (rng.choice('ie'), rng.randrange(0, 5))
        # governing values: boundary integers (0 is falsy in Python, negative, multi-octet) and OIDs of every
        # first-arc family, in random order
        keys = ([0, 1, -1, 2, 127, 128, 300, -129, 65536] if id_kind == 'int'
                else [(1, 3, 6, 1), (1, 3, 6, 2), (2, 5, 4), (0, 0), (2, 999, 3), (1, 2, 840, 113549, 1)])
        rng.shuffle(keys)
        tm = {}
        for k in keys[:rng.randrange(1, 4)]:
            t = g0.ty(1)
            # an untagged CHOICE as inner type has no single tag; fine. keep types WF
            tm[k] = t
        try:
            shape = Shape(container, id_kind, tagging, multi, tm, optional=rng.random() < 0.35)
            if shape.optional:
                rep.count('optional-open-type-field')
        except Exception as e:  # noqa
            rep.fail('schema-' + codec.classify(e), 'cannot build the container type: %r' % (e,), {'kind': 'schema'})
            continue
        for g in list(tm) + [keys[-1] if keys[-1] not in tm else (99 if id_kind == 'int' else (1, 2, 99))]:
            mapped = g in tm
            t = tm[g] if mapped else g0.ty(1)
            count = 1 if not multi else rng.choice([0, 1, 2, 3])
            inner_types = [t] * count
            inners = [g0.val(t) for _ in range(count)]
            nontriv = gen.depth(t) >= 1 or tagging is not None
            rep.case('%s id=%s %s' % (shape.describe(), g, [gen.val_sexp(w) for w in inners]), nontrivial=nontriv,
                     sample={'shape': shape.describe()[:300], 'id': str(g), 'inner': [gen.val_sexp(w)[:100] for w in inners]})
            check_shape(rep, rng, shape, g, inner_types, inners, mapped)
        if not multi and len(tm) >= 1:
            g = list(tm)[0]
            t_over = g0.ty(1)
            check_override(rep, rng, shape, g, tm[g], t_over, g0.val(t_over))


def replay(path):
    d = json.load(open(path))
    print(json.dumps(d, indent=1)[:6000])
    return 0
