"""C17 — native-Python codec round trip and Python-value encoding equivalence (DESIGN §5 C17).

(a) native round trip on the real code: abstract(native.decode(native.encode(obj), asn1Spec=T)) ~ v,
    REAL compared through float() up to rounding;
(b) a tree of plain Python values built here, independently, from (T, v) — mappings without the
    absent OPTIONAL members, DEFAULT members sometimes given sometimes left out, every accepted
    plain form of each scalar — must encode with asn1Spec=T to the bytes of the value object under
    BER (definite / indefinite / chunked), CER and DER;
(c) correspondence with the Lean model (lean/Asn1/Native.lean): NATIVE_TO, NATIVE_FROM, TREE, ENCPY."""
import json
import random
from fractions import Fraction

from harness import common, gen, codec, engine, sigs

from pyasn1 import error as perror
from pyasn1.type import univ, char, useful, namedtype, namedval, tag as ptag
from pyasn1.codec.native import encoder as nenc, decoder as ndec

REL_TOL = 1e-12
TINY = 1e-290          # below: Real.__float__ of a decimal triple loses precision / underflows (finding R1)

SIG_D17 = 'D17-default-given-in-form-eq-rejects'
SIG_R1 = 'R1-float-of-tiny-decimal-real'
SIG_T11 = 'T11-default-of-constructed-type'
SIG_T12 = 'T12-real-default-through-float'

# ----------------------------------------------------------------------------- plain-Python trees


def is_char(n):
    return n != 4


def char_text(n, octets):
    """the text a character-string value holds, if the plain `str` form is usable for it"""
    try:
        s = octets.decode(gen.STR_CLASSES[n].encoding)
        if s.encode(gen.STR_CLASSES[n].encoding) == octets:
            return s
    except Exception:  # noqa
        pass
    return None


class TreeInfo(object):
    """what a built tree contains, for classification"""

    def __init__(self):
        self.d17 = False      # a DEFAULT member equal to its default given in a form `==` does not recognise
        self.t11 = False      # ... of a constructed type
        self.t12 = False      # ... of type REAL
        self.modelable = True  # the Lean model has this form (no `str` text of character strings)
        self.forms = []


def scalar_forms(k, n, v):
    """every plain form accepted as exactly `v`: [(name, python value, recognised-by-==-with-the-default)]"""
    if k == 'bool':
        return [('bool', bool(v[1]), True), ('int01', 1 if v[1] else 0, True)]
    if k in ('int', 'enum'):
        return [('int', v[1], True)]
    if k == 'bits':
        ints = tuple(1 if c == '1' else 0 for c in v[1])
        return [('text', v[1], True), ('tuple', ints, True)]
    if k == 'null':
        return [('none', None, False), ('bytes', b'', True), ('str', '', False)]
    if k == 'oid':
        return [('tuple', tuple(v[1]), True), ('dotted', '.'.join(str(a) for a in v[1]), False)]
    if k == 'real':
        if len(v) == 2:
            return [('float', float('inf') if v[1] == 'pinf' else float('-inf'), True)]
        return [('triple', (v[1], v[2], v[3]), False)]
    if k == 'any':
        return [('bytes', v[1], True)]
    if k == 'str':
        out = [('bytes', v[1], not is_char(n))]
        if is_char(n):
            s = char_text(n, v[1])
            if s is not None:
                out.append(('str', s, True))
        return out
    raise ValueError(k)


def canonical_form(k):
    return {'bool': 'bool', 'int': 'int', 'enum': 'int', 'bits': 'text', 'null': 'none', 'oid': 'tuple',
            'real': None, 'any': 'bytes', 'str': 'bytes'}[k]


def build_tree(t, v, rng=None, give_p=0.0, info=None, under_default=False):
    """plain-Python tree for (t, v). rng None -> the canonical forms of Lean `toTree` (DEFAULT members that
    hold the default are left out). `under_default`: this node IS a DEFAULT member equal to its default."""
    if info is None:
        info = TreeInfo()
    b = gen.base_of(t)
    k = b[0]
    if k in ('seq', 'set'):
        d = {}
        for i, ((kind, dflt, ft), fv) in enumerate(zip(b[1], v[1])):
            if fv[0] == 'absent':
                continue
            eq_default = kind == 'd' and fv == dflt
            if eq_default and (rng is None or rng.random() >= give_p):
                continue
            d['f%d' % i] = build_tree(ft, fv, rng, give_p, info, under_default=eq_default)
        if under_default:
            info.t11 = True
        return d
    if k in ('seqof', 'setof'):
        if under_default:
            info.t11 = True
        return [build_tree(b[1], x, rng, give_p, info) for x in v[1]]
    if k == 'choice':
        if under_default:
            info.t11 = True
        return {'f%d' % v[1]: build_tree(b[1][v[1]][2], v[2], rng, give_p, info)}
    forms = scalar_forms(k, b[1] if k == 'str' else None, v)
    if rng is None:
        want = canonical_form(k)
        name, val, rec = [f for f in forms if want is None or f[0] == want][0]
    else:
        name, val, rec = forms[0] if rng.random() < 0.5 else rng.choice(forms)
    if k == 'str' and name == 'str':
        info.modelable = False
    if k == 'null' and name == 'str':
        pass
    if under_default and not rec:
        if k == 'real':
            info.t12 = True
        else:
            info.d17 = True
    info.forms.append(k + ':' + name)
    return val


# ----------------------------------------------------------------------------- PyVal s-expressions

def py_sexp(t, p):
    """type-directed printer of a plain tree / native object into the driver's PyVal syntax"""
    b = gen.base_of(t)
    k = b[0]
    if p is None:
        return 'none'
    if isinstance(p, bool):
        return '(b %d)' % (1 if p else 0)
    if isinstance(p, int):
        return '(i %d)' % p
    if isinstance(p, bytes):
        return '(y %s)' % gen.hexs(p)
    if isinstance(p, str):
        if any(c not in '0123456789.' for c in p):
            raise Unmodelable(p)
        return '(t %s)' % (p or '-')
    if isinstance(p, float):
        if p == float('inf'):
            return '(real pinf)'
        if p == float('-inf'):
            return '(real minf)'
        raise Unmodelable(p)
    if isinstance(p, tuple) and k == 'real':
        return '(real %d %d %d)' % p
    if isinstance(p, tuple):
        return '(tu%s)' % ''.join(' %d' % x for x in p)
    if isinstance(p, list):
        if k not in ('seqof', 'setof'):
            raise Unmodelable(p)
        return '(l%s)' % ''.join(' ' + py_sexp(b[1], x) for x in p)
    if isinstance(p, dict):
        if k not in ('seq', 'set', 'choice'):
            raise Unmodelable(p)
        out = []
        for key, val in p.items():
            i = int(key[1:])
            out.append('(%d %s)' % (i, py_sexp(b[1][i][2], val)))
        return '(d%s)' % ''.join(' ' + x for x in out)
    raise Unmodelable(p)


class _Always(object):
    """an 'rng' that always takes the first (canonical) scalar form and always gives DEFAULT members"""

    def random(self):
        return 0.0

    def choice(self, xs):
        return xs[0]


class _Fixed(object):
    """an 'rng' for replays: never adds options, hands out the stored tree seed"""

    def __init__(self, seed):
        self.seed = seed

    def random(self):
        return 1.0

    def randrange(self, n):
        return self.seed


class Unmodelable(Exception):
    pass


def native_sexp(t, v, p):
    """the native encoder's output printed as PyVal; a float (REAL) is replaced by the exact triple of `v`
    after checking that the float is the value up to rounding"""
    b = gen.base_of(t)
    k = b[0]
    if k == 'real':
        if not isinstance(p, float):
            raise Unmodelable(p)
        if len(v) == 2:
            return py_sexp(t, p)
        q = gen.real_q(v)
        if not close(float_of_triple(v), p):
            raise FloatMismatch((v, p))
        return '(real %d %d %d)' % (v[1], v[2], v[3])
    if k in ('seq', 'set', 'choice'):
        if not isinstance(p, dict):
            raise Unmodelable(p)
        out = []
        for key, val in p.items():
            i = int(key[1:])
            fv = v[1][i] if k != 'choice' else v[2]
            out.append('(%d %s)' % (i, native_sexp(b[1][i][2], fv, val)))
        return '(d%s)' % ''.join(' ' + x for x in out)
    if k in ('seqof', 'setof'):
        if not isinstance(p, list) or len(p) != len(v[1]):
            raise Unmodelable(p)
        return '(l%s)' % ''.join(' ' + native_sexp(b[1], x, y) for x, y in zip(v[1], p))
    return py_sexp(t, p)


class FloatMismatch(Exception):
    pass


def float_of_triple(v):
    """float() as the library computes it for the triple"""
    return float(univ.Real((v[1], v[2], v[3])))


def close(a, b):
    if a == b:
        return True
    return abs(a - b) <= REL_TOL * max(abs(a), abs(b))


def equiv_float(t, a, v, notes):
    """abstract equality with REAL compared through float(); notes collects 'tiny' when only R1 explains a difference"""
    bt = gen.base_of(t)
    k = bt[0]
    if a[0] != v[0]:
        return False
    if k == 'real':
        if len(a) == 2 or len(v) == 2:
            return a == v
        try:
            fa, fv = float_of_triple(a), float_of_triple(v)
        except OverflowError:
            return gen.real_q(a) == gen.real_q(v)
        if close(fa, fv):
            return True
        if abs(fv) < TINY:
            notes.append('tiny')
            return True
        return False
    if k in ('seq', 'set'):
        if len(a[1]) != len(v[1]):
            return False
        for (kind, dflt, ft), x, y in zip(bt[1], a[1], v[1]):
            if x[0] == 'absent' or y[0] == 'absent':
                if x[0] != y[0]:
                    return False
                continue
            if not equiv_float(ft, x, y, notes):
                return False
        return True
    if k in ('seqof', 'setof'):
        return len(a[1]) == len(v[1]) and all(equiv_float(bt[1], x, y, notes) for x, y in zip(a[1], v[1]))
    if k == 'choice':
        return a[1] == v[1] and equiv_float(bt[1][a[1]][2], a[2], v[2], notes)
    return a == v


def has_finite_real(t, v):
    b = gen.base_of(t)
    k = b[0]
    if v[0] == 'absent':
        return False
    if k == 'real':
        return len(v) == 4
    if k in ('seq', 'set'):
        return any(has_finite_real(f[2], x) for f, x in zip(b[1], v[1]))
    if k in ('seqof', 'setof'):
        return any(has_finite_real(b[1], x) for x in v[1])
    if k == 'choice':
        return has_finite_real(b[1][v[1]][2], v[2])
    return False


def has_any(t):
    b = gen.base_of(t)
    if b[0] == 'any':
        return True
    if b[0] in ('seq', 'set', 'choice'):
        return any(has_any(f[2]) for f in b[1])
    if b[0] in ('seqof', 'setof'):
        return has_any(b[1])
    return False


# ----------------------------------------------------------------------------- the single-case check

MODES = [('ber', True, 0), ('ber', False, 0), ('ber', True, None), ('ber', False, None), ('cer', False, 1000), ('der', True, 0)]


def enc_kw(mode):
    cdc, dm, ch = mode
    return dict(defMode=dm, maxChunkSize=ch) if cdc == 'ber' else {}


def bare_encode(cdc, tree, spec, mode):
    try:
        return ('ok', codec.ENC[cdc].encode(tree, asn1Spec=spec, **enc_kw(mode)))
    except RecursionError:
        return ('err', 'leak:RecursionError')
    except Exception as e:  # noqa
        return ('err', codec.classify(e))


def model_encpy(drv, mode, t, sx):
    cdc, dm, ch = mode
    ans = drv.ask('ENCPY %s %d %d %s %s' % (cdc, 1 if dm else 0, ch, gen.ty_sexp(t), sx))
    parts = ans.split(' ', 1)
    if parts[0] == 'ok':
        return ('ok', gen.unhex(parts[1]))
    if parts[0] == 'err':
        return ('err', parts[1])
    raise common.MachineryError('driver: %s' % ans)


def float_default_region(t):
    """a DEFAULT member that is a REAL or contains one: `==` goes through float() (finding T12)"""
    b = gen.base_of(t)
    if b[0] in ('seq', 'set', 'choice'):
        return any((kind == 'd' and contains_real(ft)) or float_default_region(ft) for kind, _, ft in b[1])
    if b[0] in ('seqof', 'setof'):
        return float_default_region(b[1])
    return False


def contains_real(t):
    b = gen.base_of(t)
    if b[0] == 'real':
        return True
    if b[0] in ('seq', 'set', 'choice'):
        return any(contains_real(ft) for _, _, ft in b[1])
    if b[0] in ('seqof', 'setof'):
        return contains_real(b[1])
    return False


def check_native(rep, drv, case, rng, with_model=True, force_opts=False):
    """(a) + NATIVE_TO / NATIVE_FROM correspondence"""
    t, v = case.t, case.v
    obj = case.fresh_obj()
    try:
        py = nenc.encode(obj)
    except OverflowError:
        if has_finite_real(t, v):
            rep.count('native:skipped-real-float-overflow')
            return
        rep.fail('native-encode-leak:OverflowError', 'native encoder', dict(case.replay, kind='native'))
        return
    except Exception as e:  # noqa
        rep.fail('native-encode-' + codec.classify(e), 'native encoder raised %s: %s' % (type(e).__name__, str(e)[:200]),
                 dict(case.replay, kind='native'))
        return
    opts = {}
    if force_opts or (rng is not None and rng.random() < 0.3):
        opts = {'someOption': True}        # keyword options must travel through every decoder (T8b)
    try:
        back = ndec.decode(py, asn1Spec=case.schema, **opts)
    except Exception as e:  # noqa
        rep.fail('native-decode-' + codec.classify(e), 'native decoder raised %s: %s (options %r)' % (
            type(e).__name__, str(e)[:200], opts), dict(case.replay, kind='native', options=bool(opts)))
        return
    notes = []
    try:
        a = gen.abstract(t, back)
        ok = equiv_float(t, a, v, notes)
        got = gen.val_sexp(a)[:300]
    except gen.NotAValue as e:
        ok, got, a = False, 'not a value: %s' % e, None
    if not ok:
        rep.fail('native-roundtrip-differs', 'native round trip of %s: %s -> %r -> %s' % (
            gen.ty_sexp(t)[:200], gen.val_sexp(v)[:200], py if len(repr(py)) < 200 else '...', got),
            dict(case.replay, kind='native', options=bool(opts)))
    elif notes:
        rep.fail(SIG_R1, 'float() of the round-tripped REAL is off by more than rounding (|x| < %g)' % TINY,
                 dict(case.replay, kind='native'))
    rep.count('native:ok' if ok else 'native:differs')
    if not with_model:
        return
    # NATIVE_TO
    try:
        impl_sx = native_sexp(t, v, py)
    except FloatMismatch as e:
        rep.fail('native-float-differs', 'float(Real) is not the value up to rounding: %r' % (e.args,),
                 dict(case.replay, kind='native'))
        return
    except Unmodelable:
        rep.count('native:unmodelable-output')
        return
    ans = drv.ask('NATIVE_TO %s %s' % (gen.ty_sexp(t), gen.val_sexp(v)))
    rep.corr_checked += 1
    if ans != 'ok ' + impl_sx:
        rep.disagree('NATIVE_TO', dict(case.replay, kind='native'), ans[:400], impl_sx[:400])
    # NATIVE_FROM on the encoder's own output
    ans = drv.ask('NATIVE_FROM %s %s' % (gen.ty_sexp(t), impl_sx))
    rep.corr_checked += 1
    if a is not None:
        mv = None
        if ans.startswith('ok '):
            mv = gen.val_of_sexp(gen.parse_sexps(ans[3:])[0])
        # the model keeps the exact REAL; the code goes through float: compare as (a)
        if mv is None or not equiv_float(t, a, mv, []):
            rep.disagree('NATIVE_FROM', dict(case.replay, kind='native', py=impl_sx[:300]), ans[:400], gen.val_sexp(a)[:400])
    # NATIVE_FROM on a plain tree in other accepted forms (bool for int, tuple for OID, missing DEFAULT keys ...)
    if rng is not None and not has_any(t):
        info = TreeInfo()
        ntseed = rng.randrange(1 << 30)
        tr = build_tree(t, v, random.Random(ntseed), 0.5, info)
        if info.modelable and not has_finite_real(t, v) and 'bits:tuple' not in info.forms:
            try:
                sx = py_sexp(t, tr)
            except Unmodelable:
                return
            ans = drv.ask('NATIVE_FROM %s %s' % (gen.ty_sexp(t), sx))
            rep.corr_checked += 1
            try:
                back2 = ndec.decode(tr, asn1Spec=case.schema)
                a2 = ('ok', gen.abstract(t, back2))
            except gen.NotAValue:
                a2 = ('err',)
            except Exception as e:  # noqa
                a2 = ('err', codec.classify(e))
            if a2[0] == 'ok':
                if not ans.startswith('ok ') or not gen.val_equiv(t, a2[1], gen.val_of_sexp(gen.parse_sexps(ans[3:])[0])):
                    rep.disagree('NATIVE_FROM', dict(case.replay, kind='native-tree', py=sx[:300], tseed=ntseed), ans[:400], gen.val_sexp(a2[1])[:400])
                elif not gen.val_equiv(t, a2[1], v):
                    rep.fail('native-decode-of-tree-differs', 'native decoder on an equivalent plain tree gives another value',
                             dict(case.replay, kind='native-tree', tseed=ntseed))
            elif ans.startswith('ok '):
                rep.disagree('NATIVE_FROM', dict(case.replay, kind='native-tree', py=sx[:300], tseed=ntseed), ans[:400], repr(a2))


def check_tree(rep, drv, case, rng, chunk, tseed, with_model=True):
    """(b) + TREE / ENCPY correspondence"""
    t, v = case.t, case.v
    modes = [(c, d, chunk if ch is None else ch) for (c, d, ch) in MODES]
    # the canonical tree must be what Lean's toTree says
    canon = build_tree(t, v, None)
    if with_model:
        ans = drv.ask('TREE 0 %s %s' % (gen.ty_sexp(t), gen.val_sexp(v)))
        rep.corr_checked += 1
        if ans != 'ok ' + py_sexp(t, canon):
            rep.disagree('TREE', dict(case.replay, kind='tree'), ans[:400], py_sexp(t, canon)[:400])
        ginfo = TreeInfo()
        given = build_tree(t, v, _Always(), 1.0, ginfo)
        ans = drv.ask('TREE 1 %s %s' % (gen.ty_sexp(t), gen.val_sexp(v)))
        rep.corr_checked += 1
        if ans != 'ok ' + py_sexp(t, given):
            rep.disagree('TREE', dict(case.replay, give=1), ans[:400], py_sexp(t, given)[:400])
        # how much of the sample lies inside the hypotheses of the Lean theorems
        ht = drv.ask('HASTYPE %s %s' % (gen.ty_sexp(t), gen.val_sexp(v)))
        d0 = drv.ask('DEFAULTSOK 0 %s' % gen.ty_sexp(t))
        d1 = drv.ask('DEFAULTSOK 1 %s' % gen.ty_sexp(t))
        rep.count('theorem-region:HasType' if ht == 'ok 1' else 'theorem-region:not-HasType')
        if ht == 'ok 1':
            rep.count('theorem-region:pytree_encoding_partial' if d0 == 'ok 1' else 'theorem-region:outside(T11/T12 guard)')
            rep.count('theorem-region:pytree_encoding_given_partial' if d1 == 'ok 1' else 'theorem-region:given-outside(D17/T11/T12 guard)')
            if d0 == 'ok 1':
                # inside the theorem the canonical tree MUST encode to the value object's bytes: checked below, flagged here
                pass
    trng = random.Random(tseed)
    trees = [(canon, TreeInfo())]
    for give_p in (1.0, 0.5):
        info = TreeInfo()
        trees.append((build_tree(t, v, trng, give_p, info), info))
    spec = gen.build(t)           # one spec object for all bare-value calls of this case
    want = {}
    for mode in modes:
        ie = codec.impl_encode(mode[0], t, v, mode[1], mode[2], obj=case.fresh_obj())
        want[mode] = ie
    seen = set()
    for tree, info in trees:
        key = repr(tree)
        if key in seen:
            continue
        seen.add(key)
        sx = None
        if with_model and info.modelable:
            try:
                sx = py_sexp(t, tree)
            except Unmodelable:
                sx = None
        for mode in modes:
            ie = want[mode]
            got = bare_encode(mode[0], tree, spec, mode)
            rep.count('tree:%s/%s/%s' % (mode[0], 'def' if mode[1] else 'indef', 'chunk' if mode[2] else 'nochunk'))
            if sx is not None:
                me = model_encpy(drv, mode, t, sx)
                rep.corr_checked += 1
                if me[0] == 'ok' and got[0] == 'ok':
                    if me[1] != got[1]:
                        rep.disagree('ENCPY', dict(case.replay, mode=list(mode), py=sx[:400], tseed=tseed), me[1].hex()[:400], got[1].hex()[:400])
                elif me[0] != got[0]:
                    if not (got[0] == 'err' and got[1] == 'leak:OverflowError' and float_default_region(t)):
                        rep.disagree('ENCPY', dict(case.replay, mode=list(mode), py=sx[:400], tseed=tseed), repr(me), repr(got))
            if ie[0] != 'ok':
                region = engine.encode_refusal_region(case, ie)
                if region is None and ie[1] == 'leak:OverflowError' and float_default_region(t):
                    region = SIG_T12      # a REAL inside a constructed DEFAULT is compared through float as well
                if region is None:
                    rep.fail('encode-' + str(ie[1]), 'encoder refused/crashed on a valid value object',
                             dict(case.replay, kind='tree', mode=list(mode), tseed=tseed))
                else:
                    rep.count('tree:value-object-not-encodable-' + region)
                continue
            if got == ie:
                continue
            # the property fails on this tree: attribute it.  A recorded region explains the difference only
            # if this tree really gives a DEFAULT member in a form `==` rejects, or if the value-object
            # encoding itself deviates from the model's (T11/T12 live in `==` of the object model)
            obj_dev = False
            if not (info.d17 or info.t11 or info.t12) and with_model:
                me_obj = codec.model_encode(drv, mode[0], t, v, mode[1], mode[2])
                obj_dev = me_obj[0] == 'ok' and me_obj[1] != ie[1]
            if info.d17:
                sig = SIG_D17
            elif info.t11 or (obj_dev and sigs.has_constructed_default(t)):
                sig = SIG_T11
            elif (got == ('err', 'liberr') and sigs.has_constructed_default(t) and
                  (sx is None or model_encpy(drv, mode, t, sx)[0] == 'err')):
                sig = SIG_T11          # `==` against a constructed default raised (the model's pyEq mirrors it)
            elif info.t12 or (obj_dev and sigs.has_real_default(t)):
                sig = SIG_T12
            elif got == ('err', 'leak:OverflowError') and float_default_region(t):
                sig = SIG_T12          # float(default) overflowed inside `==`
            elif got[0] == 'err':
                sig = 'tree-encode-' + str(got[1])
            else:
                sig = 'tree-bytes-differ'
            rep.fail(sig, '%s/%s/chunk %s: encode(tree, asn1Spec) %s != encode(value object) %s; tree %s' % (
                mode[0], 'def' if mode[1] else 'indef', mode[2], got[1].hex()[:60] if got[0] == 'ok' else got, ie[1].hex()[:60],
                repr(tree)[:120]), dict(case.replay, kind='tree', mode=list(mode), tseed=tseed))


def check_one(rep, drv, case, r):
    kind = r.get('kind', 'tree')
    if kind.startswith('native'):
        check_native(rep, drv, case, None, with_model=True, force_opts=bool(r.get('options')))
        if kind == 'native-tree':
            check_native(rep, drv, case, _Fixed(r.get('tseed', 0)))
    else:
        mode = r.get('mode')
        chunk = mode[2] if mode and mode[0] == 'ber' and mode[2] else 2
        check_tree(rep, drv, case, None, chunk, r.get('tseed', 0))


# ----------------------------------------------------------------------------- corpus and specials

CORPUS = [
    # minimized witnesses of repaired defects (run first): (type, value)
    ("bits", "(bits -)"),                                                       # T8a '' not '0'
    ("bits", "(bits 0)"), ("bits", "(bits 0000)"), ("bits", "(bits 0000000000000)"),   # all-zero, not empty
    ("(seq (r int) (r bits) (o bool))", "(seq (i 7) (bits 00000000) absent)"),
    # long bit strings whose length is not a multiple of eight, around and beyond the interpreter's 4300-digit limit for
    # decimal text (which does not apply to base 2): the text form is the value, bit for bit
    ("bits", "(bits %s)" % ''.join('1' if (i * 7 + i // 3) % 5 < 2 else '0' for i in range(4299))),
    ("bits", "(bits %s)" % ''.join('1' if (i * 7 + i // 3) % 5 < 2 else '0' for i in range(4301))),
    ("(seq (r int) (r (tag i c 0 bits)))", "(seq (i 7) (bits %s))" % ''.join('1' if (i * 11 + i // 7) % 3 == 0 else '0' for i in range(5003))),
    ("(seqof bits)", "(of (bits 1) (bits %s))" % ('0' * 4300 + '1' + '0' * 4700)),
    ("(seqof bits)", "(of (bits 0) (bits -) (bits 00) (bits 1))"),
    ("(seq (r (tag i c 0 bits)) (o int))", "(seq (bits -) absent)"),
    ("(seqof int)", "(of (i 1) (i 2))"),                                        # T8b options -> append
    ("(seq (r int) (o (str 4)))", "(seq (i 1) absent)"),                        # E4 OPTIONAL key absent (ber SequenceEncoder)
    ("(set (r int) (o (str 4)))", "(seq (i 1) absent)"),                        # E4 (cer SetEncoder)
    ("(seq (d (i -32768) (tag e c 0 enum)))", "(seq (i -32768))"),              # DEFAULT key absent
    ("(set (d (i 7) int) (r bool))", "(seq (i 7) (b 1))"),
    ("(seqof int)", "(of)"),                                                    # native [] -> value
    # DER order of a SET member that is an untagged CHOICE whose chosen alternative is a *tagged* CHOICE: the key is the
    # tag the alternative goes out under ([1] / [2]), not a tag further inside; Python mapping and value object alike
    ("(set (r bool) (r (str 4)) (r (choice (r (tag e c 1 (choice (r int) (r (str 12))))) (r null))))", "(seq (b 1) (s 41) (ch 0 (ch 0 (i 5))))"),
    ("(set (r (tag i c 1 int)) (r (choice (r (tag e c 2 (choice (r (tag i c 0 (str 4))) (r (tag i c 5 int))))) (r bool))) (o (tag i c 3 null)))",
     "(seq (i 7) (ch 0 (ch 0 (s 6162))) absent)"),
    ("(choice (r (seqof int)))", "(ch 0 (of))"),
    ("(seq (r (tag e c 0 (seq))))", "(seq (seq))"),                             # native {} -> value
    ("(str 19)", "(s 3d2e62)"),                                                 # bytes + chunking keeps base tag only
    ("(tag e c 0 (str 4))", "(s 616263)"),
    ("(tag i p 0 bits)", "(bits 10011000100000101)"),                           # BIT STRING fragments
    ("(tag e c 3 bits)", "(bits 10011000100000101)"),
    ("(set (r (choice (r (choice (r (tag i c 5 int)))))) (r (tag i c 1 int)))", "(seq (ch 0 (ch 0 (i 7))) (i 9))"),   # DER nested CHOICE key
    ("(seq (d (ch 0 (i 5)) (choice (r int) (r (str 4)))))", "(seq (ch 1 (s 78)))"),       # bare CHOICE selected the alternative in the spec/default
]


def ctx(n):
    return ptag.Tag(ptag.tagClassContext, ptag.tagFormatSimple, n)


def specials():
    """type kinds the generator does not produce, on the real code only: (name, spec, value object, [trees])"""
    out = []
    colors = namedval.NamedValues(('red', 0), ('green', 1), ('blue', 2))
    E = univ.Enumerated(namedValues=colors)
    out.append(('enumerated-named', E, E.clone('blue'), [2]))
    I = univ.Integer(namedValues=colors)
    out.append(('integer-named', I, I.clone('green'), [1, True]))
    B = univ.Boolean()
    out.append(('boolean-true', B, B.clone(True), [True, 1]))
    out.append(('boolean-false', B, B.clone(False), [False, 0]))
    N = univ.Null()
    out.append(('null', N, N.clone(''), [None, '', b'']))
    R = univ.Real()
    out.append(('real-inf', R, R.clone('inf'), [float('inf')]))
    out.append(('real-minf', R, R.clone('-inf'), [float('-inf')]))
    out.append(('real-float', R, R.clone(1.5), [1.5, (15, 10, -1)]))
    out.append(('real-zero', R, R.clone(0.0), [0.0, 0]))
    # BIT STRING with named bits: the native form is the text of 0s and 1s, '' for the empty string
    flags = namedval.NamedValues(('urgent', 0), ('archived', 1), ('signed', 2))
    F = univ.BitString(namedValues=flags)
    for bits in ('', '1', '011', '10100000', '000'):
        out.append(('named-bits-%s' % (bits or 'empty'), F, F.clone(binValue=bits) if bits else F.clone(()), [bits]))
    out.append(('named-bits-by-name', F, F.clone(binValue='011'), ['archived, signed', '011']))
    FT = univ.Sequence(componentType=namedtype.NamedTypes(namedtype.NamedType('f', F), namedtype.OptionalNamedType('n', univ.Integer()),
                                                          namedtype.NamedType('l', univ.SequenceOf(componentType=F))))
    fo = FT.clone()
    fo['f'] = F.clone(())
    fo['l'].extend([F.clone(()), F.clone(binValue='01')])
    out.append(('named-bits-empty-in-record', FT, fo, [{'f': '', 'l': ['', '01']}]))
    FC = univ.Choice(componentType=namedtype.NamedTypes(namedtype.NamedType('f', F), namedtype.NamedType('n', univ.Integer())))
    fc = FC.clone()
    fc['f'] = F.clone(())
    out.append(('named-bits-empty-in-choice', FC, fc, [{'f': ''}]))
    # lists whose positions were assigned out of order (the stored mapping is not in positional order)
    for cls, nm in ((univ.SequenceOf, 'seqof'), (univ.SetOf, 'setof')):
        LT = cls(componentType=univ.Integer())
        lo = LT.clone()
        for pos, val in ((2, 30), (0, 10), (3, 40), (1, 20)):
            lo.setComponentByPosition(pos, val)
        out.append(('%s-out-of-order' % nm, LT, lo, [[10, 20, 30, 40], (10, 20, 30, 40)]))
    RT = univ.Sequence(componentType=namedtype.NamedTypes(namedtype.NamedType('id', univ.Integer()),
                                                          namedtype.OptionalNamedType('opt', univ.OctetString()),
                                                          namedtype.NamedType('items', univ.SequenceOf(componentType=univ.OctetString()))))
    ro = RT.clone()
    ro['id'] = 7
    for pos, val in ((1, b'bb'), (2, b'c'), (0, b'a')):
        ro['items'].setComponentByPosition(pos, val)
    out.append(('record-list-out-of-order', RT, ro, [{'id': 7, 'items': [b'a', b'bb', b'c']}]))
    flags = univ.BitString(namedValues=namedval.NamedValues(('urgent', 0), ('active', 1), ('spare', 2)))
    out.append(('bits-named', flags, flags.clone('urgent, spare'), ['101', (1, 0, 1), [1, 0, 1]]))
    U = char.UTF8String()
    out.append(('utf8-non-ascii', U, U.clone('héllo € \U0001d11e'), ['héllo € \U0001d11e', 'héllo € \U0001d11e'.encode('utf-8')]))
    M = char.BMPString()
    out.append(('bmp-non-ascii', M, M.clone('Ж€'), ['Ж€', 'Ж€'.encode('utf-16-be')]))
    L = char.UTF8String()
    long_s = '€' * 700
    out.append(('utf8-long', L, L.clone(long_s), [long_s, long_s.encode('utf-8')]))
    G = useful.GeneralizedTime()
    for txt in ('20170801120112Z', '20170801120112.500Z', '201708011201Z', '20170801120112.099Z'):
        out.append(('gt-' + txt, G, G.clone(txt), [txt, txt.encode()]))
    UT = useful.UTCTime()
    out.append(('utc', UT, UT.clone('170801120112Z'), ['170801120112Z', b'170801120112Z']))
    OD = useful.ObjectDescriptor()
    out.append(('objdesc', OD, OD.clone('thing'), ['thing', b'thing']))
    T = univ.Sequence(componentType=namedtype.NamedTypes(
        namedtype.NamedType('when', useful.GeneralizedTime().subtype(explicitTag=ctx(0))),
        namedtype.OptionalNamedType('color', E.subtype(implicitTag=ctx(1))),
        namedtype.DefaultedNamedType('flag', univ.Boolean(False).subtype(implicitTag=ctx(2))),
        namedtype.NamedType('who', univ.Choice(componentType=namedtype.NamedTypes(
            namedtype.NamedType('name', char.UTF8String()),
            namedtype.NamedType('inner', univ.Choice(componentType=namedtype.NamedTypes(
                namedtype.NamedType('id', univ.Integer().subtype(implicitTag=ctx(7))),
                namedtype.NamedType('oid', univ.ObjectIdentifier())))))))))
    v = T.clone()
    v['when'] = '20170801120112Z'
    v['who']['inner']['oid'] = '1.3.6.1'
    out.append(('record-mixed', T, v, [
        {'when': b'20170801120112Z', 'who': {'inner': {'oid': (1, 3, 6, 1)}}},
        {'when': '20170801120112Z', 'flag': False, 'who': {'inner': {'oid': '1.3.6.1'}}}]))
    S = univ.Set(componentType=T.componentType)
    v = S.clone()
    v['when'] = '20170801120112Z'
    v['color'] = 'green'
    v['flag'] = True
    v['who']['name'] = 'zé'
    out.append(('set-mixed', S, v, [
        {'who': {'name': 'zé'}, 'flag': True, 'color': 1, 'when': b'20170801120112Z'}]))
    so = univ.SequenceOf(componentType=univ.Integer())
    S2 = univ.Set(componentType=namedtype.NamedTypes(
        namedtype.NamedType('a', so.subtype(implicitTag=ctx(0))),
        namedtype.OptionalNamedType('b', so.subtype(implicitTag=ctx(1)))))
    v = S2.clone()
    v['a'].clear()
    v['b'].clear()
    out.append(('set-shared-empty-tuple', S2, v, [{'a': (), 'b': ()}, {'a': [], 'b': []}]))     # id() map
    return out


def obj_equal_native(a, b):
    """compare two value objects through their native forms (only used for the specials)"""
    return repr(nenc.encode(a)) == repr(nenc.encode(b))


def run_specials(rep):
    for name, spec, obj, trees in specials():
        rep.case('special ' + name, nontrivial=True)
        rep.count('special')
        replay = {'kind': 'special', 'name': name}
        try:
            py = nenc.encode(obj)
            back = ndec.decode(py, asn1Spec=spec)
            same = (back.isValue and codec.ENC['der'].encode(back) == codec.ENC['der'].encode(obj)) \
                if not name.startswith('real-float') else (float(back) == float(obj))
            if name.startswith('gt-') or name.startswith('utc'):
                same = back.isValue and back.asOctets() == obj.asOctets()
            if not same:
                rep.fail('special-native-roundtrip-differs', '%s: %r -> %r' % (name, py, back), replay)
        except Exception as e:  # noqa
            rep.fail('special-native-' + codec.classify(e), '%s: %s' % (name, e), replay)
            continue
        for tree in trees:
            for mode in [('ber', True, 0), ('ber', False, 0), ('ber', True, 3), ('cer', False, 1000), ('der', True, 0)]:
                try:
                    want = codec.ENC[mode[0]].encode(obj, **enc_kw(mode))
                except Exception as e:  # noqa
                    rep.fail('special-encode-' + codec.classify(e), '%s %s: %s' % (name, mode, e), replay)
                    continue
                got = bare_encode(mode[0], tree, spec, mode)
                if name == 'real-float' and isinstance(tree, tuple):
                    continue
                if name == 'real-zero' and tree == 0:
                    pass
                if got != ('ok', want):
                    rep.fail('special-tree-differs', '%s %s tree %r: %s != %s' % (
                        name, mode, tree if len(repr(tree)) < 80 else '...', got[1].hex()[:80] if got[0] == 'ok' else got, want.hex()[:80]), replay)


# ----------------------------------------------------------------------------- run / replay

def ty_of(s):
    from harness import sexp_types
    return sexp_types.ty_of_sexp(gen.parse_sexps(s)[0])


def check_populated_spec_objects(rep):
    """the type handed over with the Python tree may be a schema object or a value object (the documentation says either): what
    the object happens to hold - other values, the DEFAULT values, nothing - does not reach the octets. SEQUENCE and SET with
    DEFAULT and OPTIONAL scalar members, every codec; trees equal to the defaults, equal to what the spec object holds, and
    neither"""
    for cls in (univ.Sequence, univ.Set):
        T = cls(componentType=namedtype.NamedTypes(
            namedtype.DefaultedNamedType('flag', univ.Boolean(False)), namedtype.DefaultedNamedType('n', univ.Integer(0)),
            namedtype.OptionalNamedType('s', univ.OctetString().subtype(implicitTag=ptag.Tag(ptag.tagClassContext, ptag.tagFormatSimple, 2))),
            namedtype.NamedType('id', univ.Integer().subtype(implicitTag=ptag.Tag(ptag.tagClassContext, ptag.tagFormatSimple, 3)))))
        helds = {'pristine': {}, 'defaults': {'flag': False, 'n': 0, 'id': 1}, 'others': {'flag': True, 'n': 5, 's': b'zz', 'id': 9},
                 'partial': {'n': 7}}
        trees = [{'id': 1}, {'flag': True, 'n': 7, 'id': 1}, {'flag': False, 'n': 5, 'id': 2}, {'flag': True, 'n': 5, 's': b'zz', 'id': 9},
                 {'flag': False, 'n': 0, 'id': 9}, {'n': 7, 'id': 3}, {'s': b'', 'id': 4}]
        for hname, hv in sorted(helds.items()):
            for tree in trees:
                for cdc in ('ber', 'cer', 'der'):
                    rep.evaluations += 1
                    rep.count('populated-spec-objects')
                    case = {'kind': 'populated-spec', 'container': cls.__name__, 'spec-holds': hname, 'tree': repr(tree), 'codec': cdc}
                    spec = T.clone()
                    for k_, x_ in hv.items():
                        spec[k_] = x_
                    v = T.clone()
                    for k_, x_ in tree.items():
                        v[k_] = x_
                    try:
                        want = codec.ENC[cdc].encode(v)
                        got = codec.ENC[cdc].encode(dict(tree), asn1Spec=spec)
                    except Exception as e:  # noqa
                        rep.fail('populated-spec-' + codec.classify(e), '%r' % (e,), case)
                        continue
                    if got != want:
                        rep.fail('tree-plus-populated-spec-differs-' + cdc, '%s: tree %r with a spec object holding %s gives %s, the value object %s' % (
                            cls.__name__, tree, hname, got.hex(), want.hex()), case)


def run(rep, tier, seed):
    common.prove(rep)
    rng = common.rng_for(seed, 'C17')
    drv = common.Driver()
    n = 4000 if tier == 'quick' else 120000
    n_native = 3000 if tier == 'quick' else 90000
    rep.rule = ('type-directed generator over the schema universe (depth<=3; ANY and decimal REAL only on the native path); '
                'per case: native round trip, and 3 plain trees (canonical = Lean toTree; every DEFAULT member given; '
                'half given) with random accepted scalar forms x {ber def, ber indef, ber def chunk, ber indef chunk, cer, der}; '
                'non-trivial = depth>=1 or tagged; distinct by canonical (type,value)')
    rep.assumptions = ['text codecs trusted (character strings travel as octets in the model)',
                       'float(Real) / float -> Real conversions are outside the model: REAL compared through float() with '
                       'relative tolerance %g; values whose float overflows are skipped and counted' % REL_TOL,
                       'values the object model cannot hold (build->abstract not the identity) are skipped and counted',
                       'value objects the encoder itself refuses inside the T11/T12 regions are counted, not compared']
    for ts, vs in CORPUS:
        case = engine.Case(ty_of(ts), gen.val_of_sexp(gen.parse_sexps(vs)[0]))
        rep.case('corpus ' + case.canon, nontrivial=True)
        check_native(rep, drv, case, random.Random(0), force_opts=True)
        check_native(rep, drv, case, None)
        for chunk in (2, 1):
            check_tree(rep, drv, case, rng, chunk, 0)
    run_specials(rep)
    rep.case('populated spec objects', nontrivial=True)
    check_populated_spec_objects(rep)
    for case in engine.gen_cases(rng, n, max_depth=3):
        if not engine.representable(case):
            rep.count('unrepresentable')
            continue
        rep.case(case.canon, nontrivial=gen.nontrivial(case.t),
                 sample={'type': gen.ty_sexp(case.t)[:300], 'value': gen.val_sexp(case.v)[:300]})
        rep.count('depth=%d' % gen.depth(case.t))
        check_native(rep, drv, case, rng)
        check_tree(rep, drv, case, rng, rng.choice(engine.CHUNKS), rng.randrange(1 << 30))
    # native path alone: with ANY and decimal REAL
    for case in engine.gen_cases(rng, n_native, max_depth=3, allow_any=True, allow_real10=True):
        if not engine.representable(case):
            rep.count('unrepresentable')
            continue
        rep.case('n ' + case.canon, nontrivial=gen.nontrivial(case.t))
        check_native(rep, drv, case, rng)

    engine.post_shrink(rep, drv, check_one)
    drv.close()


def replay(path):
    d = json.load(open(path))
    drv = common.Driver()
    still = 0
    items = d.get('failures', []) or [{'signature': 'disagreement', 'replay': x['case']} for x in d.get('correspondence_disagreements', [])]
    for f in items:
        r = f['replay']
        rep = common.Report('C17', 'quick', 0)
        rep.known = []
        if r.get('kind') == 'special':
            run_specials(rep)
        elif 'type' in r:
            case = engine.Case(ty_of(r['type']), gen.val_of_sexp(gen.parse_sexps(r['value'])[0]))
            check_one(rep, drv, case, r)
        bad = rep.failures or rep.corr_disagreements
        print('replay %s: %s' % (f['signature'], 'STILL FAILS' if bad else 'passes now'))
        still += bool(bad)
    drv.close()
    return 1 if still else 0
