"""C04 — DER/CER bytes depend only on the abstract value, not on how it was built (DESIGN §5 C04).

Direct oracle on the real code: for a random (type, value) several objects with the same abstract
content are produced by different routes — canonical build, members/components assigned in a random
order through different setters, DEFAULT components set explicitly or left out, decoded from BER
variants (indefinite lengths, chunked strings) and from DER/CER, cloned, and with read-only uses
(encode, prettyPrint, iteration, ==, len, values(), s[name]) interleaved.  All of them must give
identical DER and identical CER; DER/CER must re-encode byte for byte after decoding.
Correspondence: pairs of operation histories on the small container kinds replayed on the Lean
object model (`encodeObj` through HIST) and on pyasn1; the codec model's DER/CER (ENC) on the value."""
import json

from harness import common, gen, codec, sigs, wire, sexp_types, containers as C
from harness.props import c19

from pyasn1 import error
from pyasn1.type import univ, base, tag
from pyasn1.codec.ber import encoder as ber_encoder, decoder as ber_decoder
from pyasn1.codec.der import encoder as der_encoder, decoder as der_decoder
from pyasn1.codec.cer import encoder as cer_encoder, decoder as cer_decoder

CONSTRUCTED = ('seq', 'set', 'seqof', 'setof', 'choice')


# ----------------------------------------------------------------------------- construction routes

def build_shuffled(r, t, v, schema, explicit_defaults):
    """a value object of type t with abstract value v, components assigned in a random order through
    random setters; DEFAULT members equal to their default are set or left out at random
    (`explicit_defaults`: None = random, True = always set, False = never set)"""
    b = gen.base_of(t)
    k = b[0]
    if k in ('seq', 'set'):
        obj = schema.clone()
        obj.clear()
        order = list(range(len(b[1])))
        r.shuffle(order)
        for i in order:
            kind, dflt, ft = b[1][i]
            fv = v[1][i]
            if fv[0] == 'absent':
                continue
            if kind == 'd' and gen.val_equiv(ft, fv, dflt):
                setit = r.random() < 0.5 if explicit_defaults is None else explicit_defaults
                if not setit:
                    continue
            comp = build_shuffled(r, ft, fv, schema.componentType[i].asn1Object, explicit_defaults)
            how = r.randrange(4)
            if how == 0:
                obj.setComponentByPosition(i, comp)
            elif how == 1:
                obj.setComponentByName('f%d' % i, comp)
            elif how == 2:
                obj['f%d' % i] = comp
            else:
                obj[i] = comp
        return obj
    if k in ('seqof', 'setof'):
        obj = schema.clone()
        obj.clear()
        items = list(v[1])
        if k == 'setof':
            r.shuffle(items)
        comps = [build_shuffled(r, b[1], ev, schema.componentType, explicit_defaults) for ev in items]
        how = r.randrange(5)
        if how == 0:
            for c in comps:
                obj.append(c)
        elif how == 1:
            obj.extend(comps)
        elif how == 2:
            for i, c in enumerate(comps):
                obj.setComponentByPosition(i, c)
        else:
            # positions assigned out of order (back to front, or shuffled): the same list in the end
            order = list(range(len(comps)))
            if how == 3:
                order.reverse()
            else:
                r.shuffle(order)
            for i in order:
                if r.random() < 0.5:
                    obj.setComponentByPosition(i, comps[i])
                else:
                    obj[i] = comps[i]
        return obj
    if k == 'choice':
        obj = schema.clone()
        idx = v[1]
        if len(b[1]) > 1 and r.random() < 0.4:
            # select another alternative first, then re-select
            other = r.choice([j for j in range(len(b[1])) if j != idx])
            try:
                obj.getComponentByPosition(other)
            except error.PyAsn1Error:
                pass
        comp = build_shuffled(r, b[1][idx][2], v[2], schema.componentType[idx].asn1Object, explicit_defaults)
        if r.random() < 0.5:
            obj.setComponentByPosition(idx, comp)
        else:
            obj['f%d' % idx] = comp
        return obj
    if r.random() < 0.25:
        d = derived_scalar(t, v, schema)
        if d is not None:
            return d
    if r.random() < 0.3:
        d = scalar_from_other_initialiser(r, t, v, schema)
        if d is not None:
            return d
    return gen.build_value(t, v, schema)


def scalar_ways(t, v, schema):
    """name -> thunk building the same abstract scalar through another initialiser the type documents (BIT STRING from a
    Python int, a tuple of bits, 'B / 'H text, fromOctetString; OCTET STRING from a tuple of octets, hexValue; OID from
    dotted text; INTEGER from text; BOOLEAN from a bool): the stored payload has another history (lazily computed
    attributes not yet filled in)"""
    k = gen.base_of(t)[0]
    ways = {}
    if k == 'bits':
        bits = v[1]
        ways['tuple'] = lambda: schema.clone(tuple(int(c) for c in bits))
        if bits:
            ways['bin-text'] = lambda: schema.clone("'%s'B" % bits)    # (clone(binValue=...) on a value object keeps the old value)
            pad = (8 - len(bits) % 8) % 8
            octs = int(bits + '0' * pad, 2).to_bytes((len(bits) + pad) // 8, 'big')
            ways['octets'] = lambda: schema.clone(univ.BitString.fromOctetString(octs, padding=pad))
        if bits and bits[0] == '1':
            ways['int'] = lambda: schema.clone(int(bits, 2))
            ways['int-object'] = lambda: schema.clone(univ.BitString(int(bits, 2)))
        if bits and len(bits) % 4 == 0:
            ways['hex-text'] = lambda: schema.clone("'%0*x'H" % (len(bits) // 4, int(bits, 2)))
    elif k == 'str' and isinstance(v[1], bytes) and type(schema) is univ.OctetString and v[1]:
        ways['tuple'] = lambda: schema.clone(tuple(v[1]))
        ways['hex'] = lambda: schema.clone(univ.OctetString(hexValue=v[1].hex()))
    elif k == 'oid':
        ways['text'] = lambda: schema.clone('.'.join(str(a) for a in v[1]))
    elif k == 'int' and abs(v[1]) < 10 ** 4000:
        ways['text'] = lambda: schema.clone(str(v[1]))
    elif k == 'bool':
        ways['bool'] = lambda: schema.clone(bool(v[1]))
    elif k == 'real' and len(v) == 4 and v[2] == 2 and v[1] != 0 and abs(v[3]) < 500 and abs(v[1]) < 2 ** 200:
        # the same number with the binary point elsewhere (what a BER sender using a scale factor or an even mantissa
        # writes and the decoder hands over as is): mantissa times 2, 8, 16 with the exponent lowered, halved when even
        m, e = v[1], v[3]
        ways['mantissa*2'] = lambda: schema.clone((m * 2, 2, e - 1))
        ways['mantissa*8'] = lambda: schema.clone((m * 8, 2, e - 3))
        ways['mantissa*16'] = lambda: schema.clone((m * 16, 2, e - 4))
        if m % 2 == 0:
            ways['mantissa/2'] = lambda: schema.clone((m // 2, 2, e + 1))
        # decoded from BER written with a scale factor / an even mantissa
        mm = abs(m) * 4
        body = bytes([0x80 | (0x40 if m < 0 else 0) | 0x00]) + (e - 2).to_bytes(1, 'big', signed=True) + mm.to_bytes((mm.bit_length() + 7) // 8, 'big') \
            if -128 <= e - 2 < 128 else None
        if body is not None and len(body) < 128:
            ways['ber-even-mantissa'] = lambda: ber_decoder.decode(bytes([9, len(body)]) + body, asn1Spec=schema)[0]
    return ways


def scalar_from_other_initialiser(r, t, v, schema):
    ways = scalar_ways(t, v, schema)
    if not ways:
        return None
    try:
        return ways[r.choice(sorted(ways))]()
    except error.PyAsn1Error:
        return None


def check_default_scalar_initialisers(rep):
    """a DEFAULT member of scalar type set explicitly to its default through every initialiser: DER and CER leave it out
    whatever the initialiser was, on the first encoding and on the second"""
    grid = [('bits', '(bits 101)'), ('bits', '(bits 1)'), ('bits', '(bits 10100000)'), ('bits', '(bits 1111000010100101)'),
            ('bits', '(bits 0110)'), ('(str 4)', '(s 6162)'), ('oid', '(oid 1 3 6 1)'), ('int', '(i 5)'), ('int', '(i -70000)'),
            ('bool', '(b true)'), ('bool', '(b false)'), ('real', '(real 1 2 1)'), ('real', '(real -3 2 -2)'), ('real', '(real 6 2 0)')]
    for ts, ds in grid:
        for holder in ('seq', 'set'):
            t = sexp_types.ty_of_sexp(gen.parse_sexps('(%s (r (tag i c 0 int)) (d %s %s))' % (holder, ds, ts))[0])
            schema = gen.build(t)
            dv = gen.base_of(t)[1][1][1]
            ft = gen.base_of(t)[1][1][2]
            plain = schema.clone()
            plain.clear()
            plain[0] = 7
            for cdc, mod in (('der', der_encoder), ('cer', cer_encoder)):
                want = mod.encode(plain)
                for name, thunk in sorted(scalar_ways(ft, dv, schema.componentType[1].asn1Object).items()):
                    rep.evaluations += 1
                    rep.count('default-initialisers')
                    case = {'kind': 'default-initialiser', 'type': gen.ty_sexp(t), 'initialiser': name, 'codec': cdc}
                    try:
                        obj = schema.clone()
                        obj.clear()
                        obj[0] = 7
                        obj[1] = thunk()
                        first = mod.encode(obj)
                        second = mod.encode(obj)
                    except Exception as ex:  # noqa
                        rep.fail('default-initialiser-' + codec.classify(ex), '%s via %s: %r' % (gen.ty_sexp(t), name, ex), case)
                        continue
                    if first != want or second != want:
                        rep.fail('bytes-differ-%s-default-initialiser' % cdc,
                                 '%s of %s with the DEFAULT member set to its default through the %s initialiser: %s, then %s; '
                                 'member left out: %s' % (cdc.upper(), gen.ty_sexp(t), name, first.hex(), second.hex(), want.hex()), case)


def check_reads_between_handle_and_fill(rep):
    """a value built in steps with read-only uses in between: a handle on a nested member (still empty, or half filled) is taken,
    the parent is encoded / printed / compared / iterated / natively encoded, then the member is filled through the handle - the
    finished value encodes exactly like the one built without the uses in between"""
    from pyasn1.type import namedtype
    from pyasn1.codec.native import encoder as native_encoder

    def schema(cls):
        return cls(componentType=namedtype.NamedTypes(
            namedtype.NamedType('id', univ.Integer()),
            namedtype.OptionalNamedType('tags', univ.SequenceOf(componentType=univ.Integer())),
            namedtype.OptionalNamedType('opt', univ.Sequence(componentType=namedtype.NamedTypes(
                namedtype.NamedType('a', univ.Integer()), namedtype.NamedType('b', univ.OctetString()))))))
    uses = {
        'der': lambda o: der_encoder.encode(o), 'cer': lambda o: cer_encoder.encode(o), 'ber': lambda o: ber_encoder.encode(o),
        'ber-indef': lambda o: ber_encoder.encode(o, defMode=False), 'native': lambda o: native_encoder.encode(o),
        'print': lambda o: o.prettyPrint(), 'eq': lambda o: o == o, 'items': lambda o: list(o.items()), 'clone': lambda o: o.clone(cloneValueFlag=True),
        'len-iter': lambda o: (len(o), list(o)), 'isValue': lambda o: o.isValue,
    }
    histories = {
        'list-handle': (lambda r: r.__setitem__('id', 1), lambda r: r['tags'], lambda r, h: h.append(7)),
        'list-handle-two': (lambda r: (r.__setitem__('id', 1), r['tags'].append(3)), lambda r: r['tags'], lambda r, h: h.append(7)),
        'record-handle': (lambda r: r.__setitem__('id', 1), lambda r: r['opt'], lambda r, h: (h.__setitem__('a', 2), h.__setitem__('b', b'x'))),
        'record-half': (lambda r: (r.__setitem__('id', 1), r['opt'].__setitem__('a', 2)), lambda r: r['opt'], lambda r, h: h.__setitem__('b', b'x')),
        'record-half-refetch': (lambda r: (r.__setitem__('id', 1), r['opt'].__setitem__('a', 2)), lambda r: None, lambda r, h: r['opt'].__setitem__('b', b'x')),
    }
    for cls in (univ.Sequence, univ.Set):
        for hname, (first, handle, fill) in sorted(histories.items()):
            plain = schema(cls)
            first(plain)
            fill(plain, handle(plain))
            want = {'der': enc(der_encoder, plain), 'cer': enc(cer_encoder, plain)}
            for uname, use in sorted(uses.items()):
                rep.evaluations += 1
                rep.count('reads-between-handle-and-fill')
                case = {'kind': 'handle-fill', 'container': cls.__name__, 'history': hname, 'use': uname}
                r = schema(cls)
                first(r)
                h = handle(r)
                try:
                    use(r)
                except error.PyAsn1Error:
                    pass            # an unfinished value may refuse to be encoded; that is no change either
                try:
                    fill(r, h)
                except Exception as ex:  # noqa
                    rep.fail('handle-fill-' + codec.classify(ex), '%s after %s: %r' % (hname, uname, ex), case)
                    continue
                got = {'der': enc(der_encoder, r), 'cer': enc(cer_encoder, r)}
                if got != want:
                    rep.fail('bytes-differ-after-read-only-use-' + uname, '%s %s: built with %s in between encodes as %s, without as %s' % (
                        cls.__name__, hname, uname, got['der'][:80], want['der'][:80]), case)


def check_template_clones(rep):
    """a record filled in part (OPTIONAL / DEFAULT members first, a mandatory one still missing) used as a template: its copy by
    value - clone / subtype with cloneValueFlag - is completed afterwards and encodes like the value built directly; also with
    the partly filled record nested in another one"""
    from pyasn1.type import namedtype, tag as tg_

    def schema(cls):
        return cls(componentType=namedtype.NamedTypes(
            namedtype.NamedType('id', univ.Integer()),
            namedtype.OptionalNamedType('name', univ.OctetString()),
            namedtype.DefaultedNamedType('level', univ.Integer(1).subtype(implicitTag=tg_.Tag(tg_.tagClassContext, tg_.tagFormatSimple, 0)))))
    copies = {'clone': lambda o: o.clone(cloneValueFlag=True),
              'subtype': lambda o: o.subtype(cloneValueFlag=True),
              'clone-of-clone': lambda o: o.clone(cloneValueFlag=True).clone(cloneValueFlag=True)}
    for cls in (univ.Sequence, univ.Set):
        direct = schema(cls)
        direct['id'] = 7
        direct['name'] = b'ab'
        direct['level'] = 5
        want = {'der': enc(der_encoder, direct), 'cer': enc(cer_encoder, direct)}
        for cname, cp in sorted(copies.items()):
            for prefill in (('name',), ('level',), ('name', 'level'), ()):
                rep.evaluations += 1
                rep.count('template-clones')
                case = {'kind': 'template-clone', 'container': cls.__name__, 'copy': cname, 'prefilled': list(prefill)}
                try:
                    t = schema(cls)
                    if 'name' in prefill:
                        t['name'] = b'ab'
                    if 'level' in prefill:
                        t['level'] = 5
                    r = cp(t)
                    r['id'] = 7
                    if 'name' not in prefill:
                        r['name'] = b'ab'
                    if 'level' not in prefill:
                        r['level'] = 5
                    got = {'der': enc(der_encoder, r), 'cer': enc(cer_encoder, r)}
                except Exception as ex:  # noqa
                    rep.fail('template-clone-' + codec.classify(ex), '%s of a partly filled %s: %r' % (cname, cls.__name__, ex), case)
                    continue
                if got != want:
                    rep.fail('bytes-differ-template-clone', '%s completed after %s of the template (prefilled %s) encodes as %s, built directly %s' % (
                        cls.__name__, cname, list(prefill), got['der'], want['der']), case)
        # nested: the partly filled record sits in an outer one when the outer one is copied
        outer_s = univ.Sequence(componentType=namedtype.NamedTypes(namedtype.NamedType('n', univ.Integer()), namedtype.NamedType('inner', schema(cls))))
        d2 = outer_s.clone()
        d2['n'] = 1
        d2['inner']['id'] = 7
        d2['inner']['name'] = b'ab'
        want2 = enc(der_encoder, d2)
        for cname, cp in sorted(copies.items()):
            rep.evaluations += 1
            rep.count('template-clones')
            case = {'kind': 'template-clone-nested', 'container': cls.__name__, 'copy': cname}
            try:
                o = outer_s.clone()
                o['n'] = 1
                o['inner']['name'] = b'ab'
                o2 = cp(o)
                o2['inner']['id'] = 7
                got2 = enc(der_encoder, o2)
            except Exception as ex:  # noqa
                rep.fail('template-clone-' + codec.classify(ex), 'nested, %s: %r' % (cname, ex), case)
                continue
            if got2 != want2:
                rep.fail('bytes-differ-template-clone', 'nested %s: completed after %s encodes as %s, built directly %s' % (cls.__name__, cname, got2, want2), case)


def check_presence_constrained_reuse(rep):
    """a record type whose constraint looks at which members are there (WITH COMPONENTS { ttl ABSENT } / { note PRESENT }): the
    encoders have read access only - the value encodes the same the second, third ... time, after decoding, after a copy by
    value, after the native encoder has walked it; a read-only use never makes an absent DEFAULT / OPTIONAL member appear"""
    from pyasn1.type import namedtype, constraint, char
    from pyasn1.codec.ber import encoder as ber_encoder, decoder as ber_decoder
    from pyasn1.codec.native import encoder as nat_encoder

    def schema(cls, wc):
        return cls(componentType=namedtype.NamedTypes(
            namedtype.NamedType('id', univ.Integer()),
            namedtype.DefaultedNamedType('ttl', univ.Integer(60).subtype(implicitTag=tag.Tag(tag.tagClassContext, tag.tagFormatSimple, 0))),
            namedtype.OptionalNamedType('note', char.UTF8String())), subtypeSpec=wc)
    constraints = {
        'ttl ABSENT': (constraint.WithComponentsConstraint(('ttl', constraint.ComponentAbsentConstraint())), {'id': 1}),
        'ttl ABSENT, note ABSENT': (constraint.WithComponentsConstraint(('ttl', constraint.ComponentAbsentConstraint()),
                                                                       ('note', constraint.ComponentAbsentConstraint())), {'id': 1}),
        'note PRESENT, ttl ABSENT': (constraint.WithComponentsConstraint(('note', constraint.ComponentPresentConstraint()),
                                                                        ('ttl', constraint.ComponentAbsentConstraint())), {'id': 1, 'note': u'x'}),
    }
    uses = {
        'der': lambda o: enc(der_encoder, o), 'cer': lambda o: enc(cer_encoder, o), 'ber': lambda o: enc(ber_encoder, o),
        'ber-indef': lambda o: enc(ber_encoder, o, defMode=False), 'native': lambda o: nat_encoder.encode(o) and None,
        'print': lambda o: o.prettyPrint() and None, 'compare': lambda o: (o == o) and None, 'len-keys': lambda o: (len(o), list(o.keys())) and None,
    }
    for cls in (univ.Sequence, univ.Set):
        for cname, (wc, members) in sorted(constraints.items()):
            def fresh():
                o = schema(cls, wc).clone()
                for k, x in members.items():
                    o[k] = x
                return o
            want = enc(der_encoder, fresh())
            if want.startswith('err'):
                rep.fail('presence-constrained-fresh-refused', 'a fresh %s value of the type (%s) is refused: %s' % (cls.__name__, cname, want),
                         {'kind': 'presence-constrained', 'container': cls.__name__, 'constraint': cname})
                continue
            starts = {'built': fresh, 'decoded': lambda: ber_decoder.decode(bytes.fromhex(want), asn1Spec=schema(cls, wc))[0],
                      'copied': lambda: fresh().clone(cloneValueFlag=True)}
            for sname, start in sorted(starts.items()):
                for first in sorted(uses):
                    for second in ('der', 'cer', 'ber'):
                        rep.evaluations += 1
                        rep.count('presence-constrained-reuse')
                        case = {'kind': 'presence-constrained', 'container': cls.__name__, 'constraint': cname, 'start': sname, 'uses': [first, second, 'der']}
                        try:
                            o = start()
                            uses[first](o)
                            uses[second](o)
                            got = enc(der_encoder, o)
                            copy_got = enc(der_encoder, o.clone(cloneValueFlag=True))
                        except Exception as ex:  # noqa
                            rep.fail('read-only-use-changes-value', '%s (%s), %s, after %s and %s: the DER encoder then fails with %r; a fresh value encodes as %s' % (
                                cls.__name__, cname, sname, first, second, ex, want), case)
                            continue
                        if got != want or copy_got != want:
                            rep.fail('read-only-use-changes-value', '%s (%s), %s, after %s and %s encodes as %s (its copy %s), a fresh value as %s' % (
                                cls.__name__, cname, sname, first, second, got, copy_got, want), case)


def derived_scalar(t, v, schema):
    """the scalar held by an object of a *derived, more constrained* subtype of the declared type (which a
    container accepts wherever it accepts the declared type): same abstract value, another route"""
    from pyasn1.type import constraint
    k = gen.base_of(t)[0]
    try:
        if k in ('int', 'enum'):
            sub = schema.subtype(subtypeSpec=constraint.ValueRangeConstraint(v[1], v[1]))
        elif k == 'str':
            sub = schema.subtype(subtypeSpec=constraint.ValueSizeConstraint(0, len(v[1]) + 1))
        elif k == 'bits':
            sub = schema.subtype(subtypeSpec=constraint.ValueSizeConstraint(0, len(v[1]) + 1))
        else:
            return None
        return gen.build_value(t, v, sub)
    except error.PyAsn1Error:
        return None


def enc(cdc, obj, **kw):
    try:
        return cdc.encode(obj, **kw).hex()
    except RecursionError:
        return 'err:RecursionError'
    except Exception as e:  # noqa
        return 'err:' + (type(e).__name__ if not isinstance(e, error.PyAsn1Error) else 'PyAsn1Error')


def use_readers(r, t, obj, n):
    """a few read-only uses, at random levels of the value"""
    subs = list(c19.nested_objects(t, obj))
    calls = []
    for st, so, path in subs:
        for name, f in c19.reader_calls(st, so):
            calls.append((name, f))
    r.shuffle(calls)
    used = []
    for name, f in calls[:n]:
        try:
            f()
        except (error.PyAsn1Error, IndexError, KeyError):
            pass
        except OverflowError:
            pass        # T12 (REAL compared through float): classified by the byte comparison below
        used.append(name)
    return used


def classify(t, v, what, label=''):
    """attribute a byte difference / refusal to a recorded finding when the case has its structure"""
    if 'OverflowError' in what and c19.default_mentions_real(t):
        return 'T12-real-default-through-float'
    if sigs.has_constructed_default(t):
        # T11 as recorded: the comparison of a member with its constructed DEFAULT looks at the stored components. It
        # raises (the route is then refused), or answers "different" for two records denoting the same value: a
        # DEFAULT-valued member inside them set on one side and left out on the other (any route), or an absent
        # OPTIONAL member inside them instantiated as a placeholder by an earlier read (routes with reads only).
        # Any other difference between routes on such a type is not that finding.
        if 'err:' in what or 'Error' in what or sigs.nested_default_in_constructed_default(t) \
                or ('+reads' in label and sigs.optional_in_constructed_default(t)):
            return 'T11-default-of-constructed-type'
    return None


def routes_case(rep, drv, r, t, v):
    replay = {'kind': 'routes', 'type': gen.ty_sexp(t), 'value': gen.val_sexp(v)}
    schema = gen.build(t)
    try:
        base_obj = gen.build_value(t, v, schema)
        if not gen.val_equiv(t, gen.abstract(t, base_obj), v):
            rep.count('unrepresentable')
            return
    except Exception:  # noqa
        rep.count('unrepresentable')
        return
    ref = {'der': enc(der_encoder, base_obj), 'cer': enc(cer_encoder, base_obj)}
    # correspondence with the codec model on the abstract value
    for cdc in ('der', 'cer'):
        me = codec.model_encode(drv, cdc, t, v)
        rep.corr_checked += 1
        if me[0] == 'ok' and not ref[cdc].startswith('err'):
            if me[1].hex() != ref[cdc]:
                if sigs.has_constructed_default(t):
                    # T11: `component == default` on constructed values (e.g. Choice.__eq__ compares the
                    # components whatever the alternative) omits or keeps the member wrongly; the codec
                    # model compares abstract content
                    rep.count('enc-corr-in-T11-region')
                else:
                    # the model's octets are the canonical encoding (Props.C03: = X690.der; CER order by smallest outermost
                    # tag): a failing input for the property itself when the library reads them as v and re-encodes otherwise
                    try:
                        dm = der_decoder if cdc == 'der' else cer_decoder
                        em = der_encoder if cdc == 'der' else cer_encoder
                        o3, rest3 = dm.decode(me[1], asn1Spec=schema)
                        if not rest3 and gen.val_equiv(t, gen.abstract(t, o3), v) and enc(em, o3) != me[1].hex() \
                                and not (cdc == 'cer' and wire.e1_applies(t, v)):
                            rep.fail('reencode-of-canonical-differs-' + cdc, '%s(decode(e)) = %s for the %s encoding e = %s' % (
                                cdc, enc(em, o3)[:160], cdc.upper(), me[1].hex()[:160]), dict(replay, codec=cdc, bytes=me[1].hex()))
                    except Exception:  # noqa
                        pass
                    rep.disagree('ENC', dict(replay, codec=cdc), me[1].hex(), ref[cdc])
        elif (me[0] == 'ok') != (not ref[cdc].startswith('err')):
            if classify(t, v, ref[cdc]) is None:
                rep.disagree('ENC', dict(replay, codec=cdc), repr(me[:2]), ref[cdc])
    routes = []
    encoded = []        # (label, {'der': hex, 'cer': hex}) taken when the route is created: later read-only uses of the
                        # same object are a route of their own ('+reads'), not part of this one

    def add(label, o):
        routes.append((label, o))
        encoded.append((label, {'der': enc(der_encoder, o), 'cer': enc(cer_encoder, o)}))
    constructed = gen.base_of(t)[0] in CONSTRUCTED
    if not sigs._has_default_member(t) and not sigs.contains_real(t):
        # the value handed over in its plain Python form together with the type (DEFAULT members given as Python values
        # are C17's subject)
        try:
            from pyasn1.codec.native import encoder as native_encoder
            tree = native_encoder.encode(base_obj)
            encoded.append(('python-value', {'der': enc(der_encoder, tree, asn1Spec=schema), 'cer': enc(cer_encoder, tree, asn1Spec=schema)}))
        except Exception:  # noqa
            rep.count('route-unavailable:python-value')
    if constructed:
        for ed in (None, True, False):
            try:
                add('shuffled-defaults=%s' % ed, build_shuffled(r, t, v, schema, ed))
            except Exception as e:  # noqa
                rep.fail('route-build-' + type(e).__name__, 'cannot build by shuffled assignment: %s' % e, replay)
    # decoded from BER variants and from the canonical encodings
    for label, data_f, dec in (
            ('ber-indef', lambda: ber_encoder.encode(base_obj, defMode=False), ber_decoder),
            ('ber-chunked', lambda: ber_encoder.encode(base_obj, defMode=r.random() < 0.5, maxChunkSize=r.choice([1, 2, 3, 7])), ber_decoder),
            ('ber-def', lambda: ber_encoder.encode(base_obj), ber_decoder),
            ('der-decoded', lambda: der_encoder.encode(base_obj), der_decoder),
            ('der-ber-decoded', lambda: der_encoder.encode(base_obj), ber_decoder),
            ('cer-decoded', lambda: cer_encoder.encode(base_obj), cer_decoder)):
        try:
            data = data_f()
            obj2, rest = dec.decode(data, asn1Spec=schema)
            if rest or not gen.val_equiv(t, gen.abstract(t, obj2), v):
                rep.count('route-unavailable:' + label)      # a round-trip matter (C01/C02), not C04's
                continue
            add(label, obj2)
        except Exception:  # noqa
            rep.count('route-unavailable:' + label)
    # clones and objects that went through read-only uses
    extra = []
    for label, o in routes + [('canonical', base_obj)]:
        if constructed and r.random() < 0.7:
            try:
                extra.append((label + '+clone', o.clone(cloneValueFlag=True)))
            except Exception as e:  # noqa
                rep.fail('clone-' + type(e).__name__, 'clone(cloneValueFlag=True) raised %s: %s' % (type(e).__name__, e),
                         dict(replay, route=label))
    for label, o in extra:
        add(label, o)
    for label, o in list(routes):
        if constructed and r.random() < 0.8:
            used = use_readers(r, t, o, r.randrange(1, 8))
            add(label + '+reads(%s)' % ','.join(used[:4]), o)
            if r.random() < 0.5:
                try:
                    add(label + '+reads+clone', o.clone(cloneValueFlag=True))
                except Exception as e:  # noqa
                    rep.fail('clone-' + type(e).__name__, 'clone(cloneValueFlag=True) after read-only uses raised %s: %s'
                             % (type(e).__name__, e), dict(replay, route=label, reads=used))
    for label, got_by in encoded:
        rep.count('route=' + label.split('+')[0].split('(')[0])
        for cdc in ('der', 'cer'):
            got = got_by[cdc]
            if got != ref[cdc]:
                sig = classify(t, v, got + ref[cdc], label) or ('bytes-differ-%s-%s' % (cdc, label.split('=')[0].split('(')[0]))
                rep.fail(sig, '%s of the same abstract value differs by route %s: %s vs canonical %s' % (
                    cdc.upper(), label, got[:160], ref[cdc][:160]), dict(replay, route=label, codec=cdc))
                break
    # re-encoding what the canonical decoders return
    for cdc, emod, dmod in (('der', der_encoder, der_decoder), ('cer', cer_encoder, cer_decoder)):
        e0 = ref[cdc]
        if e0.startswith('err'):
            continue
        try:
            obj2, rest = dmod.decode(bytes.fromhex(e0), asn1Spec=schema)
            again = enc(emod, obj2)
            ok = (not rest) and again == e0
            what = 'remainder %s' % bytes(rest).hex() if rest else again[:160]
        except Exception as ex:  # noqa
            ok = False
            what = '%s: %s' % (type(ex).__name__, ex)
        if not ok:
            sig = None
            if cdc == 'cer' and wire.e1_applies(t, v):
                sig = 'E1-stray-eoo'
            sig = sig or classify(t, v, what) or ('reencode-differs-' + cdc)
            rep.fail(sig, '%s(decode(%s(v))) != %s(v): %s vs %s' % (cdc, cdc, cdc, what, e0[:160]), dict(replay, codec=cdc))


# ----------------------------------------------------------------------------- history pairs on the small kinds

def second_history(r, kind, proto):
    """another history reaching the content of `proto`: other order, other setters, defaults set
    explicitly or left out, readers in between"""
    ops = []

    def reads():
        p = C.proto_for(kind)
        for _ in range(r.randrange(0, 3)):
            op = c19.gen_op(r, kind, p)
            if op[0] not in C.MUTATORS and op[0] not in ('getitem', 'getpos', 'getitem-pos', 'getitem-name', 'getname',
                                                        'gettype', 'values', 'items', 'eq'):
                ops.append(op)
    if kind.kind == 'seqof':
        if proto.l is None or any(x is None for x in proto.l):
            return None
        vals = list(proto.l)
        if kind.isSet:
            r.shuffle(vals)
        ops.append(('clear',))
        for x in vals:
            a = ('obj', x) if (not kind.typed or r.random() < 0.4) else ('py', x)
            ops.append(r.choice([('append', a), ('setitem', len([o for o in ops if o[0] in ('append', 'setitem', 'setpos')]), a)]))
            reads()
        if r.random() < 0.5:
            ops.append(('clone', True))
        ops.append(('iter',))
        return ops
    if kind.kind == 'rec':
        if not kind.n or not proto.is_value():
            return None
        s = proto.s if proto.s else [None] * kind.n
        order = list(range(kind.n))
        r.shuffle(order)
        ops.append(('clear',))
        for j in order:
            f = kind.fields[j]
            x = s[j]
            if x is None:
                if f[0] == 'd' and r.random() < 0.5:
                    x = f[1]            # set the default explicitly
                else:
                    if r.random() < 0.3:
                        ops.append(('getname', j, False))
                    continue
            elif f[0] == 'd' and x == f[1] and r.random() < 0.5:
                continue                # leave the default out
            a = ('py', x) if r.random() < 0.6 else ('obj', x)
            ops.append(r.choice([('setitem-name', j, a), ('setpos', j, a), ('setname', j, a), ('setitem-pos', j - kind.n, a)]))
            reads()
        if r.random() < 0.5:
            ops.append(r.choice([('values',), ('items',), ('pretty',), ('keys',)]))
        if r.random() < 0.5:
            ops.append(('clone', True))
        ops.append(('len',))
        return ops
    if proto.sel is None or proto.sel[1] is None:
        return None
    k, z = proto.sel
    if kind.n > 1 and r.random() < 0.6:
        other = r.choice([j for j in range(kind.n) if j != k])
        ops.append(r.choice([('setitem-name', other, ('py', 1)), ('getitem-name', other), ('setnone', other)]))
    elif r.random() < 0.5:
        ops.append(('setitem-pos', k, ('py', z + 1)))       # the same alternative first, with another value
    ops.append(r.choice([('setitem-name', k, ('py', z)), ('setpos', k - kind.n, ('obj', z)), ('settype', k, ('py', z))]))
    reads()
    if r.random() < 0.5:
        ops.append(('clone', True))
    ops.append(('getchosenname',))
    return ops


def history_pair(rep, drv, r, kind, length):
    ops1 = c19.gen_history(r, kind, length, wild=False)
    if not ops1:
        return
    proto = C.proto_for(kind)
    try:
        for op in ops1:
            proto.apply(op)
    except C.Unspecified:
        return
    ops2 = second_history(r, kind, proto)
    if ops2 is None:
        rep.count('pair-skipped-not-a-value')
        return
    replay = {'kind': kind.head(), 'ops': [C.op_sexp(o) for o in ops1], 'ops2': [C.op_sexp(o) for o in ops2]}
    rep.case('pair ' + kind.head() + ' ' + ' '.join(replay['ops']) + ' || ' + ' '.join(replay['ops2']), nontrivial=True,
             sample=replay)
    rep.count('pair-kind=' + kind.kind)
    finals = []
    for ops in (ops1, ops2):
        real = C.Real(kind)
        for op in ops:
            out = real.apply(op)
            if out.startswith('leak:'):
                rep.fail('leak-%s-%s' % (out[5:], op[0]), 'container operation raised %s' % out, replay)
                return
        obs = real.observe()
        lean = C.lean_run(drv, kind, ops)[-1]
        rep.corr_checked += 1
        if obs[3:] != lean[4:]:
            rep.disagree('HIST-final', replay, list(lean[4:]), list(obs[3:]))
        finals.append(obs)
    a1, a2 = finals[0][3], finals[1][3]
    want = proto.abs()
    if a1 == 'none' or want is None or not gen.val_equiv(proto.ty(), gen.val_of_sexp(gen.parse_sexps(a1)[0]), want):
        # the first history left the documented range (e.g. finding T5): C19's matter, no pair to compare
        rep.count('pair-skipped-diverged')
        return
    if a2 == 'none':
        rep.fail('pair-content-differs', 'the second history does not reach a value (first: %s)' % a1, replay)
        return
    t = proto.ty()
    v1, v2 = gen.val_of_sexp(gen.parse_sexps(a1)[0]), gen.val_of_sexp(gen.parse_sexps(a2)[0])
    if not gen.val_equiv(t, v1, v2):
        rep.fail('pair-content-differs', 'the second history does not reach the same abstract value: %s vs %s' % (a1, a2), replay)
        return
    if finals[0][4] != finals[1][4] or finals[0][5] != finals[1][5]:
        rep.fail('bytes-differ-history', 'same abstract value %s, different bytes: DER %s / %s, CER %s / %s' % (
            a1, finals[0][4], finals[1][4], finals[0][5], finals[1][5]), replay)


# ----------------------------------------------------------------------------- corpus

ROUTE_CORPUS = [
    # a SET with an untagged CHOICE member: the canonical place of the member is decided by the outermost tag of the chosen
    # alternative (DER) / the smallest outermost tag of the alternatives (CER) whatever the route; alternatives explicitly
    # tagged so that base tags and outer tags order differently, a sibling in between
    ('(set (r (tag i c 4 int)) (r (choice (r (tag e c 5 (str 4))) (r (tag e c 3 (str 12))))))', '(seq (i 1) (ch 1 (s 78)))'),
    ('(set (r (tag i c 4 int)) (r (choice (r (tag e c 5 (str 4))) (r (tag e c 3 (str 12))))))', '(seq (i 1) (ch 0 (s 78)))'),
    ('(set (r (tag i c 4 int)) (r (choice (r (tag e c 5 int)) (r (tag i c 3 (str 4))) (r (tag e c 6 bool)))) (r (tag i c 7 null)))', '(seq (i 1) (ch 0 (i 9)) null)'),
    ('(set (r (tag i c 4 int)) (r (choice (r (tag e c 5 int)) (r (tag i c 3 (str 4))) (r (tag e c 6 bool)))) (r (tag i c 7 null)))', '(seq (i 1) (ch 2 (b 1)) null)'),
    ('(set (r (str 4)) (r (choice (r (tag e a 1 (str 12))) (r (tag e c 0 int)))) (o (tag i p 2 bool)))', '(seq (s 6162) (ch 1 (i 300)) (b 0))'),
    ('(set (r (tag e c 2 (str 4))) (r (choice (r (tag e c 3 int)) (r (tag e c 1 (seq (r int)))))))', '(seq (s 61) (ch 0 (i 5)))'),
    # a DEFAULT member whose default is a non-empty SEQUENCE OF / SET OF, the value equal to the default: built in any
    # order of positions, the member is recognised as the default and left out
    ('(seq (r int) (d (of (i 1) (i 2)) (seqof int)))', '(seq (i 5) (of (i 1) (i 2)))'),
    ('(seq (r int) (d (of (i 1) (i 2) (i 3)) (seqof int)))', '(seq (i 5) (of (i 1) (i 2) (i 3)))'),
    ('(seq (r int) (d (of (i 1) (i 2)) (seqof int)))', '(seq (i 5) (of (i 2) (i 1)))'),
    ('(set (r bool) (d (of (s 61) (s 6262) (s 63)) (tag i c 1 (seqof (str 4)))))', '(seq (b 1) (of (s 61) (s 6262) (s 63)))'),
    # T4a (repaired): a read made an absent OPTIONAL record present; BER then differed by route
    ('(seq (r int) (o (seq (o int))))', '(seq (i 1) absent)'),
    # clone after a read touched an absent OPTIONAL SEQUENCE OF (repaired)
    ('(seq (r int) (o (seqof int)))', '(seq (i 1) absent)'),
    # SET OF members in any order, DEFAULT explicit or not
    ('(setof int)', '(of (i 5) (i -1) (i 300) (i 5))'),
    ('(set (d (i 7) (tag i c 0 int)) (r (tag i c 1 (setof (str 4)))) (o (tag e c 2 bool)))', '(seq (i 7) (of (s 6162) (s 61) (s -)) absent)'),
    ('(choice (r (tag i c 0 int)) (r (tag e c 1 (seqof (set (d (b 1) bool))))))', '(ch 1 (of (seq (b 1)) (seq (b 0))))'),
    # a DEFAULT member whose default is the empty record: left out, set explicitly, read before encoding, cloned, decoded
    ('(seq (r int) (d (seq absent absent) (seq (o int) (o bool))))', '(seq (i 5) (seq absent absent))'),
    ('(set (r int) (d (seq absent) (tag e c 1 (set (o (str 4))))))', '(seq (i 5) (seq absent))'),
    ('(seq (r int) (d (seq (i 3)) (seq (d (i 3) int))))', '(seq (i 5) (seq (i 3)))'),
    # a CHOICE whose chosen alternative is a *tagged* CHOICE: built, cloned, decoded, as a member, as a DEFAULT
    ('(choice (r int) (r (tag e c 0 (choice (r int) (r bool)))))', '(ch 1 (ch 0 (i 5)))'),
    ('(choice (r int) (r (tag e c 0 (choice (r int) (r bool)))))', '(ch 1 (ch 1 (b 1)))'),
    ('(seq (r int) (r (choice (r (str 4)) (r (tag e c 1 (choice (r int) (r bool)))))))', '(seq (i 1) (ch 1 (ch 0 (i 5))))'),
    ('(seq (r int) (d (ch 1 (ch 0 (i 5))) (choice (r (str 4)) (r (tag e c 1 (choice (r int) (r bool)))))))', '(seq (i 1) (ch 1 (ch 0 (i 5))))'),
    # DER order of a SET member that is an untagged CHOICE holding a tagged CHOICE: by the tag it goes out under
    ('(set (r null) (r (choice (r (tag e c 1 (choice (r int) (r (str 4))))) (r bool))))', '(seq null (ch 0 (ch 0 (i 5))))'),
    ('(set (r (str 4)) (r bool) (r (choice (r (tag e c 1 (choice (r int) (r (str 12))))) (r null))))', '(seq (s 41) (b 1) (ch 0 (ch 0 (i 5))))'),
]

PAIR_CORPUS = [
    ('HIST seqof 1 1', '(extend (py 3) (py 1) (py 2))'),
    ('HIST rec 0 (r o (d 7))', '(setitem-name 0 (py 1)) (setitem-name 2 (py 7))'),
    ('HIST rec 1 ((d 0) o r (d -1))', '(setpos 2 (obj 4)) (values) (setitem-name 1 (py 9))'),
    ('HIST choice 3', '(setitem-name 0 (py 5)) (getitem-name 2) (setitem-pos -1 (py 7))'),
]


def run(rep, tier, seed):
    common.prove(rep)
    rng = common.rng_for(seed, 'C04')
    drv = common.Driver()
    quick = tier == 'quick'
    n_routes = 5000 if quick else 150000
    n_pairs = 12000 if quick else 360000
    max_len = 12 if quick else 40
    rep.rule = ('(type, value) from the schema universe (depth <= 3) x construction routes {canonical, shuffled '
                'assignment order and setters x DEFAULT explicit/left out/random, decoded from BER indefinite / chunked / '
                'definite, from DER and CER, clones, read-only uses in between}; plus pairs of operation histories '
                '(length <= %d) reaching the same content on SEQUENCE OF/SET OF, SEQUENCE/SET, CHOICE, replayed on '
                'pyasn1 and on the Lean object model; non-trivial = constructed type; distinct by (type, value) / '
                'history pair' % max_len)
    rep.assumptions = ['decoding routes that do not round-trip (C01/C02 matters, e.g. finding E1) are skipped and counted',
                       'text codecs trusted; decimal REAL not generated']
    # the SET OF ordering of CER/DER is translated from the source on every run (gen/py2lean.py -> GenK.setOfSort), proved equal
    # to the model's sort and insensitive to the order of the elements (Props/C04.source_setof_order_insensitive); the
    # translation is run against the real method here
    from harness import kernels
    kernels.obligations(rep, ['setOfSort'])
    kernels.check(rep, drv, seed, 150 if quick else 5000, which=('setOfSort',))
    rep.case('default initialisers', nontrivial=True)
    check_default_scalar_initialisers(rep)
    rep.case('reads between handle and fill', nontrivial=True)
    check_reads_between_handle_and_fill(rep)
    rep.case('template clones', nontrivial=True)
    check_template_clones(rep)
    check_presence_constrained_reuse(rep)
    for ts, vs in ROUTE_CORPUS:
        t = sexp_types.ty_of_sexp(gen.parse_sexps(ts)[0])
        v = gen.val_of_sexp(gen.parse_sexps(vs)[0])
        for k in range(8):
            rep.case('corpus routes %s %s #%d' % (ts, vs, k), nontrivial=True)
            routes_case(rep, drv, common.rng_for(seed, 'C04c', k), t, v)
    for head, ops_s in PAIR_CORPUS:
        kind = c19.kind_of(head)
        for k in range(3):
            r2 = common.rng_for(seed, 'C04p', head, k)
            ops1 = c19.parse_ops(ops_s, kind)
            proto = C.proto_for(kind)
            for op in ops1:
                proto.apply(op)
            _pair_fixed(rep, drv, r2, kind, ops1, proto)
    g = gen.Gen(rng, max_depth=3)
    for _ in range(n_routes):
        t, v = g.case()
        rep.case('routes ' + gen.ty_sexp(t) + ' ' + gen.val_sexp(v), nontrivial=gen.base_of(t)[0] in CONSTRUCTED,
                 sample={'type': gen.ty_sexp(t)[:300], 'value': gen.val_sexp(v)[:300]})
        rep.count('depth=%d' % gen.depth(t))
        routes_case(rep, drv, rng, t, v)
    ks = c19.kinds()
    for i in range(n_pairs):
        history_pair(rep, drv, rng, ks[i % len(ks)], rng.randrange(1, max_len + 1))
    drv.close()


def _pair_fixed(rep, drv, r, kind, ops1, proto):
    ops2 = second_history(r, kind, proto)
    if ops2 is None:
        return
    replay = {'kind': kind.head(), 'ops': [C.op_sexp(o) for o in ops1], 'ops2': [C.op_sexp(o) for o in ops2]}
    rep.case('corpus pair ' + kind.head() + ' ' + ' '.join(replay['ops2']), nontrivial=True)
    finals = []
    for ops in (ops1, ops2):
        real = C.Real(kind)
        for op in ops:
            real.apply(op)
        finals.append(real.observe())
    if finals[0][3] != 'none' and (finals[0][4] != finals[1][4] or finals[0][5] != finals[1][5]):
        t = proto.ty()
        v1 = gen.val_of_sexp(gen.parse_sexps(finals[0][3])[0])
        v2 = gen.val_of_sexp(gen.parse_sexps(finals[1][3])[0]) if finals[1][3] != 'none' else None
        if v2 is not None and gen.val_equiv(t, v1, v2):
            rep.fail('bytes-differ-history', 'same abstract value, different bytes: %s / %s' % (finals[0][4], finals[1][4]), replay)
        else:
            rep.fail('pair-content-differs', 'second history reaches %s, first %s' % (finals[1][3], finals[0][3]), replay)


def replay(path):
    d = json.load(open(path))
    drv = common.Driver()
    still = 0
    for f in d.get('failures', []):
        r = f['replay']
        col = c19.Collector()
        if r.get('kind') == 'routes':
            t = sexp_types.ty_of_sexp(gen.parse_sexps(r['type'])[0])
            v = gen.val_of_sexp(gen.parse_sexps(r['value'])[0])
            for k in range(10):
                routes_case(col, drv, common.rng_for(k, 'replay'), t, v)
        elif r.get('kind', '').startswith('HIST'):
            kind = c19.kind_of(r['kind'])
            ops1 = c19.parse_ops(' '.join(r['ops']), kind)
            proto = C.proto_for(kind)
            for op in ops1:
                proto.apply(op)
            for k in range(10):
                _pair_fixed(col, drv, common.rng_for(k, 'replay'), kind, ops1, proto)
        bad = [x for x in col.failures if x['signature'] == f['signature']]
        print('replay %s: %s' % (f['signature'], 'STILL FAILS' if bad else 'passes now'))
        still += bool(bad)
    return 1 if still else 0
