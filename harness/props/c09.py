"""C09 — every valid BER form of a value decodes to that value (DESIGN §5 C09).
The reference encoder that makes every X.690 choice nondeterministically is lean/Asn1/X690.lean
`berVariant`, driven by a random choice script (driver op VARIANT)."""
import json

from harness import common, gen, codec, engine, sigs, wire

CORPUS = [
    # (type, value, script)
    ("(str 22)", "(s 616263646566)", [0, 1, 1, 0]),                 # D2: segmented character string
    ("(str 4)", "(s 61626364656667)", [0, 2, 2, 1, 0, 2, 0, 0]),     # D3: nested constructed segments
    ("(set (r int) (r bool))", "(seq (i 5) (b 1))", [0, 1, 0, 0, 3, 7, 0]),
    ("bits", "(bits 101010101010101010101)", [0, 1, 1, 1]),
    ("(str 4)", "(s 616263)", [30, 0]),                               # 8 length octets
    ("(str 4)", "(s 616263)", [34, 0]),                               # 9 length octets (more than a machine word)
    ("(seq (r int) (r (str 4)))", "(seq (i 7) (s 7879))", [478, 0, 2, 0, 478, 0, 0]),   # 121 length octets, nested
    # an untagged CHOICE whose chosen alternative is again an untagged CHOICE, found by tag: as a SET member (any
    # order) and as a SEQUENCE component behind skipped OPTIONAL / DEFAULT ones
    ("(set (r int) (r (choice (r (choice (r bool) (r (str 4)))) (r null))))", "(seq (i 5) (ch 0 (ch 1 (s 6162))))", [0, 0, 0, 0, 0, 0]),
    ("(set (r int) (r (choice (r (choice (r bool) (r (str 4)))) (r null))))", "(seq (i 5) (ch 0 (ch 0 (b 1))))", [0, 1, 0, 0, 1, 0, 0]),
    ("(seq (o int) (d (b 1) bool) (r (choice (r (choice (r (str 4)) (r bits))) (r null))))", "(seq absent (b 1) (ch 0 (ch 0 (s 61))))", [0, 0, 0, 0]),
    ("(seq (o int) (d (b 1) bool) (r (choice (r (choice (r (str 4)) (r bits))) (r null))))", "(seq absent (b 1) (ch 0 (ch 1 (bits 101))))", [1, 0, 1, 0, 0]),
    ("(seq (o (tag e c 0 int)) (r (choice (r (choice (r (choice (r oid) (r real))) (r int))) (r null))))", "(seq absent (ch 0 (ch 0 (ch 0 (oid 1 2 3)))))", [0, 0, 0]),
]


def variant(drv, case, script):
    ans = drv.ask('VARIANT %s %s %s' % (gen.ty_sexp(case.t), gen.val_sexp(case.v), ' '.join(str(x) for x in script)))
    if ans.startswith('ok '):
        return gen.unhex(ans[3:])
    return None


def has_nested_segments(data):
    from harness import wire
    try:
        nodes = wire.read_all(data)
    except Exception:  # noqa
        return False

    def rec(n, inside):
        if n['cons'] and n['tag'] in (('u', 4), ('u', 3)) and inside:
            return True
        ins = inside or (n['cons'] and n['tag'][0] == 'u' and n['tag'][1] in (3, 4, 12, 18, 19, 20, 21, 22, 25, 26, 27, 28, 30, 7))
        return any(rec(c, ins) for c in n.get('children', []))
    return any(rec(n, False) for n in nodes)


def check_case(rep, drv, case, scripts):
    for script in scripts:
        data = variant(drv, case, script)
        if data is None:
            rep.count('reference-undefined')
            continue
        rep.count('variants')
        idr, md = engine.corr_decode(rep, drv, case, 'ber', data)
        ok = idr[0] == 'ok' and idr[2] == b'' and gen.val_equiv(case.t, idr[1], case.v)
        if not ok:
            sig = None
            if idr[0] == 'ok' and sigs.t11(case):
                sig = 'T11-default-of-constructed-type'
            elif has_nested_segments(data):
                sig = 'D3-nested-constructed-segments'
            if sig is None:
                sig = 'variant-' + (str(idr[1]) if idr[0] == 'err' else ('not-a-value' if idr[0] == 'bad' else 'value-differs'))
            rep.fail(sig, 'BER variant %s -> %s' % (data.hex()[:120], (idr[0], gen.val_sexp(idr[1])[:160], idr[2].hex()) if idr[0] == 'ok' else idr[:2]),
                     dict(case.replay, kind='variant', script=list(script), bytes=data.hex()))


def nested_bit_fragments(rep, rng, n):
    """constructed BIT STRINGs whose fragments are constructed in turn (X.690 8.6.4), definite and indefinite at every
    level, bare / implicitly / explicitly tagged / as a record member: the BER decoder returns the bits, with and
    without a guiding type, from bytes and from a stream cut anywhere.  (The model keeps primitive fragments only; the
    expectation is written out here.)"""
    import io
    from pyasn1.type import univ, tag, namedtype
    from pyasn1.codec.ber import decoder as ber_dec

    def prim(bits):
        pad = -len(bits) % 8
        body = int(bits + '0' * pad, 2).to_bytes((len(bits) + pad) // 8, 'big') if bits else b''
        return b'\x03' + wire.emit_len(1 + len(body)) + bytes([pad]) + body

    def build(bits, depth, ident=b'\x23'):
        """(encoding, bits): a constructed BIT STRING split into fragments, some of them constructed again"""
        k = rng.randrange(1, 4)
        cuts = sorted(rng.randrange(0, len(bits) // 8 + 1) * 8 for _ in range(k - 1))
        parts = [bits[a:b] for a, b in zip([0] + cuts, cuts + [len(bits)])]
        body = b''
        for i, p in enumerate(parts):
            if i < len(parts) - 1 and len(p) % 8:
                raise AssertionError
            if not p and i < len(parts) - 1:
                continue
            if depth > 0 and rng.random() < 0.5 and p:
                body += build(p, depth - 1)
            else:
                body += prim(p)
        if not body:
            body = prim('')
        if rng.random() < 0.5:
            return ident + b'\x80' + body + b'\x00\x00'
        return ident + wire.emit_len(len(body)) + body
    for i in range(n):
        bits = ''.join(rng.choice('01') for _ in range(rng.choice([0, 1, 7, 8, 9, 15, 16, 17, 40, 41])))
        where = rng.choice(['bare', 'implicit', 'explicit', 'member'])
        if where == 'bare':
            spec, data = univ.BitString(), build(bits, 3)
        elif where == 'implicit':
            spec = univ.BitString().subtype(implicitTag=tag.Tag(tag.tagClassContext, tag.tagFormatSimple, 5))
            data = build(bits, 3, b'\xa5')
        elif where == 'explicit':
            spec = univ.BitString().subtype(explicitTag=tag.Tag(tag.tagClassApplication, tag.tagFormatConstructed, 40))
            inner = build(bits, 3)
            data = b'\x7f\x28' + wire.emit_len(len(inner)) + inner
        else:
            spec = univ.Sequence(componentType=namedtype.NamedTypes(namedtype.NamedType('n', univ.Integer()), namedtype.NamedType('b', univ.BitString())))
            inner = b'\x02\x01\x07' + build(bits, 3)
            data = b'\x30' + wire.emit_len(len(inner)) + inner
        rep.evaluations += 1
        rep.count('nested-bit-fragments')
        rep.case('nested-bits %s %s' % (where, data.hex()[:80]), nontrivial=True)
        replay = {'kind': 'nested-bit-fragments', 'where': where, 'bits': bits, 'bytes': data.hex()}
        for with_spec in (True, False):
            if not with_spec and where == 'implicit':
                continue
            try:
                v, rest = ber_dec.decode(data + b'\x05\x00', **({'asn1Spec': spec} if with_spec else {}))
                got = v['b'] if where == 'member' and with_spec else (v[1] if where == 'member' else v)
                got = got.asBinary() if len(got) else ''
                if rest != b'\x05\x00':
                    got += ' rest=' + rest.hex()
            except Exception as e:  # noqa
                got = 'ERR %s' % type(e).__name__
            if got != bits:
                rep.fail('nested-bit-fragments', 'decoded %s, the encoding denotes %s (%s guiding type)' % (got[:80], bits[:80], 'with' if with_spec else 'without'), replay)
                break


def check_all_true_octets(rep):
    """X.690 8.2.2: any non-zero contents octet is TRUE - all 255 of them, at top level, under an explicit tag, with an
    over-long length, as a member of a definite and of an indefinite SEQUENCE, with and without a guiding type"""
    from pyasn1.type import univ, namedtype, tag as ptag
    from pyasn1.codec.ber import decoder as bdec
    ex = univ.Boolean().subtype(explicitTag=ptag.Tag(ptag.tagClassContext, ptag.tagFormatSimple, 0))
    rec = univ.Sequence(componentType=namedtype.NamedTypes(namedtype.NamedType('b', univ.Boolean()), namedtype.NamedType('n', univ.Integer())))
    for octet in range(256):
        o = bytes([octet])
        shapes = [('top', b'\x01\x01' + o, univ.Boolean(), lambda v: v),
                  ('long-length', b'\x01\x83\x00\x00\x01' + o, univ.Boolean(), lambda v: v),
                  ('explicit', b'\xa0\x03\x01\x01' + o, ex, lambda v: v),
                  ('explicit-indef', b'\xa0\x80\x01\x01' + o + b'\x00\x00', ex, lambda v: v),
                  ('member', b'\x30\x06\x01\x01' + o + b'\x02\x01\x07', rec, lambda v: v['b']),
                  ('member-indef', b'\x30\x80\x01\x01' + o + b'\x02\x01\x07\x00\x00', rec, lambda v: v['b'])]
        for name, data, spec, pick in shapes:
            for with_spec in (True, False):
                if not with_spec and name.startswith('member'):
                    continue
                rep.evaluations += 1
                rep.count('true-octets')
                try:
                    v, rest = bdec.decode(data, asn1Spec=spec if with_spec else None)
                    got = (bool(pick(v)), bytes(rest))
                except Exception as e:  # noqa
                    got = 'ERR ' + type(e).__name__ + ': ' + str(e)[:60]
                if got != (octet != 0, b''):
                    rep.fail('true-octet-%s' % name, 'BOOLEAN with contents octet %02x (%s, %s guiding type): %s' % (
                        octet, name, 'with' if with_spec else 'without', got), {'kind': 'true-octet', 'octet': octet, 'shape': name,
                                                                               'bytes': data.hex(), 'spec': with_spec})
                    break


def run(rep, tier, seed):
    common.prove(rep)
    rng = common.rng_for(seed, 'C09')
    drv = common.Driver()
    # the decoder's length block is translated from the source on every run (gen/py2lean.py -> GenK.decodeLength;
    # Props/C09.source_length_decoding_is_model); the translation is run against the real decoder here
    from harness import kernels
    kernels.obligations(rep, ['decodeLength', 'decodeTag', 'bitsFromOctets', 'bitsDecode', 'fromBytes', 'intDecode', 'berBoolDec'])
    kernels.check(rep, drv, seed, 300 if tier == 'quick' else 20000, which=('decodeLength', 'decodeTag', 'bitsDecode', 'berBoolDec'))
    rep.case('all TRUE octets', nontrivial=True)
    check_all_true_octets(rep)
    n = 1200 if tier == 'quick' else 40000
    per = 3 if tier == 'quick' else 6
    rep.rule = ('generated (type, value) x random choice scripts for lean/Asn1/X690.lean berVariant: length form per element '
                '(short/long/redundant zeros), definite/indefinite per constructed element, primitive or segmented (also nested) '
                'strings, TRUE octet, SET rotation, DEFAULT presence; non-trivial = depth>=1 or tagged; distinct by (type,value,script)')
    rep.assumptions = ['the X.690 transcription and variant writer in lean/Asn1/X690.lean', 'text codecs trusted']
    from harness import sexp_types
    nested_bit_fragments(rep, common.rng_for(seed, 'C09', 'nested-bits'), 300 if tier == 'quick' else 20000)
    for ts, vs, script in CORPUS:
        t = sexp_types.ty_of_sexp(gen.parse_sexps(ts)[0])
        v = gen.val_of_sexp(gen.parse_sexps(vs)[0])
        case = engine.Case(t, v)
        rep.case('corpus ' + case.canon)
        check_case(rep, drv, case, [script])
    for case in engine.gen_cases(rng, n, max_depth=3, allow_any=True, any_ber=True):
        if not engine.representable(case):
            continue
        def pick():
            # mostly small choice numbers; now and then a long run of redundant leading zero octets in a length
            # (choice numbers >= 4 select the count: up to 126 length octets in all)
            x = rng.randrange(0, 12)
            return x + 4 * rng.choice([1, 5, 6, 7, 30, 118, 119]) if rng.random() < 0.15 else x
        scripts = [[pick() for _ in range(rng.choice([4, 16, 60]))] for _ in range(per)]
        rep.case(case.canon + ' ' + str(scripts[0][:8]), nontrivial=gen.nontrivial(case.t),
                 sample={'type': gen.ty_sexp(case.t)[:300], 'value': gen.val_sexp(case.v)[:300], 'script': scripts[0][:20]})
        check_case(rep, drv, case, scripts)

    def check_one(c, drv, case, r):
        check_case(c, drv, case, [r.get('script', [])])
    engine.post_shrink(rep, drv, check_one)
    drv.close()


def replay(path):
    d = json.load(open(path))
    print(json.dumps(d, indent=1)[:6000])
    return 0
