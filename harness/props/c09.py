"""C09 — every valid BER form of a value decodes to that value (DESIGN §5 C09).
The reference encoder that makes every X.690 choice nondeterministically is lean/Asn1/X690.lean
`berVariant`, driven by a random choice script (driver op VARIANT)."""
import json

from harness import common, gen, codec, engine, sigs

CORPUS = [
    # (type, value, script)
    ("(str 22)", "(s 616263646566)", [0, 1, 1, 0]),                 # D2: segmented character string
    ("(str 4)", "(s 61626364656667)", [0, 2, 2, 1, 0, 2, 0, 0]),     # D3: nested constructed segments
    ("(set (r int) (r bool))", "(seq (i 5) (b 1))", [0, 1, 0, 0, 3, 7, 0]),
    ("bits", "(bits 101010101010101010101)", [0, 1, 1, 1]),
    ("(str 4)", "(s 616263)", [30, 0]),                               # 8 length octets
    ("(str 4)", "(s 616263)", [34, 0]),                               # 9 length octets (more than a machine word)
    ("(seq (r int) (r (str 4)))", "(seq (i 7) (s 7879))", [478, 0, 2, 0, 478, 0, 0]),   # 121 length octets, nested
    # an untagged CHOICE whose chosen alternative is again an untagged CHOICE, found by tag: as a SET member (any
    # order) and as a SEQUENCE component behind skipped OPTIONAL / DEFAULT ones
    ("(set (r int) (r (choice (r (choice (r bool) (r (str 4)))) (r null))))", "(seq (i 5) (ch 0 (ch 1 (s 6162))))", [0, 0, 0, 0, 0, 0]),
    ("(set (r int) (r (choice (r (choice (r bool) (r (str 4)))) (r null))))", "(seq (i 5) (ch 0 (ch 0 (b 1))))", [0, 1, 0, 0, 1, 0, 0]),
    ("(seq (o int) (d (b 1) bool) (r (choice (r (choice (r (str 4)) (r bits))) (r null))))", "(seq absent (b 1) (ch 0 (ch 0 (s 61))))", [0, 0, 0, 0]),
    ("(seq (o int) (d (b 1) bool) (r (choice (r (choice (r (str 4)) (r bits))) (r null))))", "(seq absent (b 1) (ch 0 (ch 1 (bits 101))))", [1, 0, 1, 0, 0]),
    ("(seq (o (tag e c 0 int)) (r (choice (r (choice (r (choice (r oid) (r real))) (r int))) (r null))))", "(seq absent (ch 0 (ch 0 (ch 0 (oid 1 2 3)))))", [0, 0, 0]),
]


def variant(drv, case, script):
    ans = drv.ask('VARIANT %s %s %s' % (gen.ty_sexp(case.t), gen.val_sexp(case.v), ' '.join(str(x) for x in script)))
    if ans.startswith('ok '):
        return gen.unhex(ans[3:])
    return None


def has_nested_segments(data):
    from harness import wire
    try:
        nodes = wire.read_all(data)
    except Exception:  # noqa
        return False

    def rec(n, inside):
        if n['cons'] and n['tag'] in (('u', 4), ('u', 3)) and inside:
            return True
        ins = inside or (n['cons'] and n['tag'][0] == 'u' and n['tag'][1] in (3, 4, 12, 18, 19, 20, 21, 22, 25, 26, 27, 28, 30, 7))
        return any(rec(c, ins) for c in n.get('children', []))
    return any(rec(n, False) for n in nodes)


def check_case(rep, drv, case, scripts):
    for script in scripts:
        data = variant(drv, case, script)
        if data is None:
            rep.count('reference-undefined')
            continue
        rep.count('variants')
        idr, md = engine.corr_decode(rep, drv, case, 'ber', data)
        ok = idr[0] == 'ok' and idr[2] == b'' and gen.val_equiv(case.t, idr[1], case.v)
        if not ok:
            sig = None
            if idr[0] == 'ok' and sigs.t11(case):
                sig = 'T11-default-of-constructed-type'
            elif has_nested_segments(data):
                sig = 'D3-nested-constructed-segments'
            if sig is None:
                sig = 'variant-' + (str(idr[1]) if idr[0] == 'err' else ('not-a-value' if idr[0] == 'bad' else 'value-differs'))
            rep.fail(sig, 'BER variant %s -> %s' % (data.hex()[:120], (idr[0], gen.val_sexp(idr[1])[:160], idr[2].hex()) if idr[0] == 'ok' else idr[:2]),
                     dict(case.replay, kind='variant', script=list(script), bytes=data.hex()))


def run(rep, tier, seed):
    common.prove(rep)
    rng = common.rng_for(seed, 'C09')
    drv = common.Driver()
    n = 1200 if tier == 'quick' else 40000
    per = 3 if tier == 'quick' else 6
    rep.rule = ('generated (type, value) x random choice scripts for lean/Asn1/X690.lean berVariant: length form per element '
                '(short/long/redundant zeros), definite/indefinite per constructed element, primitive or segmented (also nested) '
                'strings, TRUE octet, SET rotation, DEFAULT presence; non-trivial = depth>=1 or tagged; distinct by (type,value,script)')
    rep.assumptions = ['the X.690 transcription and variant writer in lean/Asn1/X690.lean', 'text codecs trusted']
    from harness import sexp_types
    for ts, vs, script in CORPUS:
        t = sexp_types.ty_of_sexp(gen.parse_sexps(ts)[0])
        v = gen.val_of_sexp(gen.parse_sexps(vs)[0])
        case = engine.Case(t, v)
        rep.case('corpus ' + case.canon)
        check_case(rep, drv, case, [script])
    for case in engine.gen_cases(rng, n, max_depth=3, allow_any=True, any_ber=True):
        if not engine.representable(case):
            continue
        def pick():
            # mostly small choice numbers; now and then a long run of redundant leading zero octets in a length
            # (choice numbers >= 4 select the count: up to 126 length octets in all)
            x = rng.randrange(0, 12)
            return x + 4 * rng.choice([1, 5, 6, 7, 30, 118, 119]) if rng.random() < 0.15 else x
        scripts = [[pick() for _ in range(rng.choice([4, 16, 60]))] for _ in range(per)]
        rep.case(case.canon + ' ' + str(scripts[0][:8]), nontrivial=gen.nontrivial(case.t),
                 sample={'type': gen.ty_sexp(case.t)[:300], 'value': gen.val_sexp(case.v)[:300], 'script': scripts[0][:20]})
        check_case(rep, drv, case, scripts)

    def check_one(c, drv, case, r):
        check_case(c, drv, case, [r.get('script', [])])
    engine.post_shrink(rep, drv, check_one)
    drv.close()


def replay(path):
    d = json.load(open(path))
    print(json.dumps(d, indent=1)[:6000])
    return 0
