"""C06 — truncated input is reported as insufficient data at every cut point (DESIGN §5 C06)."""
import io
import json

from harness import common, gen, codec, engine, sigs, streams
from pyasn1 import error
from pyasn1.codec.ber import decoder as ber_decoder

CORPUS = [
    ("bits", "(bits 1010101011)", ('ber', True, 0)),            # D1: cut after the BIT STRING length octet
    ("(str 4)", "(s 6162636465)", ('ber', True, 0)),            # S6: closed stream in the middle of a read
    ("(seq (r bits) (r int))", "(seq (bits 1) (i 300))", ('ber', False, 0)),
]


def stream_outcome(dec_module, stream, schema, max_steps=12):
    """iterate a StreamingDecoder: list of 'V' (value) / 'U' (underrun) then terminal 'stop' | error class"""
    out = []
    try:
        it = iter(dec_module.StreamingDecoder(stream, asn1Spec=schema))
        for _ in range(max_steps):
            x = next(it)
            if isinstance(x, error.SubstrateUnderrunError):
                out.append('U')
            elif x is None:
                out.append('N')
            else:
                out.append('V')
    except StopIteration:
        out.append('stop')
    except Exception as e:  # noqa
        out.append('EOS' if isinstance(e, error.EndOfStreamError) else codec.classify(e))
    return out


def check_prefixes(rep, drv, case, mode, data, with_schema, cuts):
    cdc = mode[0]
    dec = codec.DEC[cdc]
    schema = case.schema if with_schema else None
    for k in cuts:
        common.arm_watchdog()       # the deadline is for the decoder to come back on one prefix, not for every cut of a long encoding
        pre = data[:k]
        base = dict(case.replay, kind='prefix', enc=list(mode), bytes=data.hex(), cut=k, schema=with_schema)
        # (a) one-shot on bytes
        try:
            dec.decode(pre, asn1Spec=schema)
            r = 'value'
        except Exception as e:  # noqa
            r = codec.classify(e)
        if r != 'underrun':
            rep.fail('prefix-oneshot-' + r, 'one-shot decode of a proper prefix (cut %d of %d) -> %s' % (k, len(data), r), base)
        rep.count('cuts')
        # (a') one-shot on streams holding the prefix: closed (end of stream) and still open (a non-blocking stream that
        # answers "nothing yet"): the one-shot call raises the insufficient-data error, it never returns
        for sname, mk in (('closed-bytesio', lambda: io.BytesIO(pre)),
                          ('open-nonblocking-bytesio', lambda: streams.NonBlockingBytesIO(pre)),
                          ('open-nonseekable', lambda: streams.GrowingStream(seekable=False)),
                          ('open-seekable', lambda: streams.GrowingStream(seekable=True))):
            if sname in ('open-seekable', 'closed-bytesio') and k % 3:
                continue
            st = mk()
            if isinstance(st, streams.GrowingStream):
                st.feed(pre)
            try:
                got = dec.decode(st, asn1Spec=schema)
                r2 = 'value' if not isinstance(got[0], error.SubstrateUnderrunError) else 'returned-underrun-object'
            except Exception as e:  # noqa
                r2 = codec.classify(e)
            if r2 != 'underrun':
                rep.fail('prefix-oneshot-stream-' + r2, 'one-shot decode of a %s stream holding a proper prefix (cut %d of %d) -> %s' % (
                    sname, k, len(data), r2), dict(base, stream=sname))
        if with_schema:
            md = codec.model_decode(drv, cdc, case.t, pre)
            rep.corr_checked += 1
            if md != ('err', 'underrun'):
                rep.disagree('DEC-prefix', base, md, r)
        # (b') an in-memory non-blocking stream (BytesIO subclass, the idiom of the library's own tests)
        for max_read in (None, 1, 3):
            s = streams.NonBlockingBytesIO(pre, max_read=max_read)
            o = stream_outcome(dec, s, schema, max_steps=4)
            if any(x != 'U' for x in o):
                rep.fail('prefix-open-bytesio-' + '-'.join(o[-2:]),
                         'open non-blocking BytesIO holding a proper prefix (cut %d of %d, max_read %s) -> %s' % (k, len(data), max_read, o),
                         dict(base, stream='nonblocking-bytesio', max_read=max_read))
            s = streams.NonBlockingBytesIO(pre, max_read=max_read)
            s.close_input()
            o = stream_outcome(dec, s, schema)
            if o != ['EOS']:
                rep.fail('prefix-closed-bytesio-' + '-'.join(o[-2:]),
                         'closed non-blocking BytesIO holding a proper prefix (cut %d of %d, max_read %s) -> %s' % (k, len(data), max_read, o),
                         dict(base, stream='nonblocking-bytesio', max_read=max_read))
        if k % 3 == 1 or k == len(data) - 1:
            check_instalments(rep, dec, schema, pre, base)
        # (b) seekable stream closed after byte k
        for seekable in (True, False):
            s = streams.GrowingStream(seekable=seekable)
            s.feed(pre)
            s.close_input()
            o = stream_outcome(dec, s, schema)
            if o != ['EOS']:
                rep.fail('prefix-closed-stream-' + '-'.join(o[-2:]),
                         'stream (%s) closed at cut %d of %d -> %s' % ('seekable' if seekable else 'non-seekable', k, len(data), o),
                         dict(base, seekable=seekable))
            # (c') a seekable adapter that answers None to EVERY read - a zero-octet one included - while it has nothing: still
            # open -> underruns only; closed afterwards -> end of stream
            if seekable:
                s = streams.GrowingStream(seekable=True, none_on_zero=True)
                s.feed(pre)
                o = stream_outcome(dec, s, schema, max_steps=4)
                if any(x != 'U' for x in o):
                    rep.fail('prefix-open-stream-none-on-zero-' + '-'.join(o[-2:]),
                             'open stream answering None to read(0), holding a proper prefix (cut %d of %d) -> %s' % (k, len(data), o),
                             dict(base, seekable=True, none_on_zero=True))
            # (b'') / (c'') the non-seekable source behind the standard library's buffering (io.BufferedReader over a pipe,
            # a socket's makefile('rb'), sys.stdin.buffer): closed at the cut -> end of stream; still open -> only underruns
            if not seekable:
                raw = streams.GrowingStream(seekable=False)
                raw.feed(pre)
                raw.close_input()
                o = stream_outcome(dec, io.BufferedReader(raw), schema)
                if o != ['EOS']:
                    rep.fail('prefix-closed-buffered-' + '-'.join(o[-2:]), 'io.BufferedReader over a non-seekable source closed at cut %d of %d -> %s' % (
                        k, len(data), o), dict(base, stream='buffered-nonseekable'))
                raw = streams.GrowingStream(seekable=False)
                raw.feed(pre)
                o = stream_outcome(dec, io.BufferedReader(raw), schema, max_steps=4)
                if any(x != 'U' for x in o):
                    rep.fail('prefix-open-buffered-' + '-'.join(o[-2:]), 'io.BufferedReader over an open non-seekable source holding a proper prefix '
                             '(cut %d of %d) -> %s' % (k, len(data), o), dict(base, stream='buffered-nonseekable'))
            # (c) the same stream still open: only underruns
            s = streams.GrowingStream(seekable=seekable)
            s.feed(pre)
            o = stream_outcome(dec, s, schema, max_steps=4)
            if any(x != 'U' for x in o):
                rep.fail('prefix-open-stream-' + '-'.join(o[-2:]),
                         'open stream (%s) holding a proper prefix (cut %d of %d) -> %s' % ('seekable' if seekable else 'non-seekable', k, len(data), o),
                         dict(base, seekable=seekable))


def check_instalments(rep, dec, schema, pre, base):
    """a proper prefix arriving in two instalments with one, two or three empty polls in between (the wrapper's cached
    octets must survive every "no data yet" answer): only underruns while the stream is open, end of stream once closed"""
    n = len(pre)
    if n < 2:
        return
    splits = sorted({1, n // 2, n - 1})
    # max_read: a record-oriented source - one read() never returns more than `max_read` octets although more are there
    # (TLS records, chunked transfer): the decoder's short-read branch then collects several parts before it finds the
    # element unfinished and has to step back over ALL of them
    plans = [(None, j, polls) for j in splits for polls in (1, 2, 3)] + [(m, j, 1) for m in (1, 3) for j in splits]
    for seekable in (False, True):
        for max_read, j, polls in plans:
            if True:
                s = streams.GrowingStream(seekable=seekable, max_read=max_read)
                out = []
                try:
                    it = iter(dec.StreamingDecoder(s, asn1Spec=schema))

                    def step():
                        x = next(it)
                        out.append('U' if isinstance(x, error.SubstrateUnderrunError) else 'V')
                    s.feed(pre[:j])
                    for _ in range(polls):
                        step()
                    s.feed(pre[j:])
                    for _ in range(2):
                        step()
                    s.close_input()
                    for _ in range(3):
                        step()
                except StopIteration:
                    out.append('stop')
                except Exception as e:  # noqa
                    out.append('EOS' if isinstance(e, error.EndOfStreamError) else codec.classify(e))
                rep.count('instalments')
                if out[-1] != 'EOS' or any(x != 'U' for x in out[:-1]):
                    rep.fail('prefix-instalments-' + '-'.join(out[-2:]),
                             'a proper prefix (%d octets) arriving as %d + %d octets with %d empty poll(s) in between on a %s stream%s -> %s' % (
                                 n, j, n - j, polls, 'seekable' if seekable else 'non-seekable',
                                 ' handing out at most %d octet(s) per read' % max_read if max_read else '', out),
                             dict(base, seekable=seekable, split=j, polls=polls, max_read=max_read))


def check_megabyte_elements(rep):
    """elements whose contents exceed the decoder's per-read cap (streaming.MAX_READ_SIZE, 1 MiB): the complete encoding
    decodes, and every proper prefix - in particular cuts beyond header + cap, where the first capped read is full - is an
    underrun / end of stream, never a value and never another error"""
    from pyasn1.codec import streaming
    from pyasn1.type import univ, namedtype
    from pyasn1.codec.der import decoder as der_decoder
    cap = getattr(streaming, 'MAX_READ_SIZE', 1 << 20)
    n = cap + 70001

    def ln(k):
        b = k.to_bytes((k.bit_length() + 7) // 8, 'big')
        return bytes([0x80 | len(b)]) + b
    payload = bytes((i * 7 + 3) & 0xff for i in range(251)) * (n // 251 + 1)
    payload = payload[:n]
    prim = b'\x04' + ln(n) + payload
    rec_t = univ.Sequence(componentType=namedtype.NamedTypes(namedtype.NamedType('n', univ.Integer()),
                                                            namedtype.NamedType('blob', univ.OctetString())))
    rec = b'\x30' + ln(3 + len(prim)) + b'\x02\x01\x05' + prim
    half = n // 2 + cap // 2
    seg = b'\x24\x80' + b'\x04' + ln(half) + payload[:half] + b'\x04' + ln(n - half) + payload[half:] + b'\x00\x00'
    for name, data, schema, dec, hdr in (('der-octets', prim, univ.OctetString(), der_decoder, len(prim) - n),
                                         ('der-record', rec, rec_t, der_decoder, len(rec) - n),
                                         ('ber-indef-two-fragments', seg, univ.OctetString(), ber_decoder, 2 + len(ln(half)) + 1)):
        base = {'kind': 'megabyte', 'case': name, 'length': len(data), 'cap': cap}
        rep.case('megabyte ' + name, nontrivial=True)
        try:
            obj, rest = dec.decode(data, asn1Spec=schema)
            whole = bytes(obj['blob'] if name == 'der-record' else obj) == payload and rest == b''
        except Exception as e:  # noqa
            whole = False
            rep.fail('megabyte-whole-' + codec.classify(e), 'the complete %d-octet encoding does not decode: %s' % (len(data), e), base)
        else:
            if not whole:
                rep.fail('megabyte-whole-wrong', 'the complete %d-octet encoding decodes to other contents' % len(data), base)
        for k in sorted({1, hdr, hdr + 5, hdr + cap - 1, hdr + cap, hdr + cap + 1, hdr + cap + 4096, len(data) - 70000, len(data) - 1}):
            if not 0 < k < len(data):
                continue
            pre = data[:k]
            rep.count('megabyte-cuts')
            rep.evaluations += 1
            for how, arg in (('bytes', pre), ('bytesio', io.BytesIO(pre))):
                try:
                    dec.decode(arg, asn1Spec=schema)
                    r = 'value'
                except Exception as e:  # noqa
                    r = codec.classify(e)
                if r != 'underrun':
                    rep.fail('prefix-oneshot-' + r, 'one-shot decode (%s) of a proper prefix (cut %d of %d, element beyond the read cap) -> %s' % (
                        how, k, len(data), r), dict(base, cut=k, presentation=how))
            for closed in (False, True):
                for mk in ('nonblocking-bytesio', 'seekable', 'non-seekable'):
                    if mk == 'nonblocking-bytesio':
                        s = streams.NonBlockingBytesIO(pre)
                    else:
                        s = streams.GrowingStream(seekable=(mk == 'seekable'))
                        s.feed(pre)
                    if closed:
                        s.close_input()
                    o = stream_outcome(dec, s, schema, max_steps=4)
                    bad = (o != ['EOS']) if closed else any(x != 'U' for x in o)
                    if bad:
                        rep.fail('prefix-%s-stream-%s' % ('closed' if closed else 'open', '-'.join(o[-2:])),
                                 '%s %s stream holding a proper prefix (cut %d of %d, element beyond the read cap) -> %s' % (
                                     'closed' if closed else 'open', mk, k, len(data), o), dict(base, cut=k, stream=mk, closed=closed))


def check_case(rep, drv, case, modes, rng, all_cuts=True):
    for mode in modes:
        cdc, dm, ch = mode
        ie = codec.impl_encode(cdc, case.t, case.v, dm, ch, obj=case.fresh_obj())
        if ie[0] != 'ok':
            continue
        data = ie[1]
        # only encodings that are valid (round trip) are in the property's quantifier
        full = codec.impl_decode(cdc if cdc != 'der' else 'der', case.t, data, case.schema)
        if not (full[0] == 'ok' and full[2] == b''):
            rep.count('skipped-not-roundtripping')
            continue
        n = len(data)
        if n <= 40 or (all_cuts and n <= 400):
            cuts = range(n)
        elif all_cuts:
            # thorough tier on a long encoding: every cut near both ends, a sample in between (every cut of a 5000-octet string
            # through a dozen stream kinds would take the tier into hours without meeting another element boundary)
            cuts = sorted(set(list(range(0, 150)) + [rng.randrange(n) for _ in range(150)] + list(range(n - 100, n))))
        else:
            cuts = sorted(set(list(range(0, 12)) + [rng.randrange(n) for _ in range(20)] + list(range(n - 6, n))))
        check_prefixes(rep, drv, case, mode, data, True, cuts)
        if not sigs_needs_schema(case.t):
            check_prefixes(rep, drv, case, mode, data, False, cuts)


def sigs_needs_schema(t):
    """schemaless decoding is only meaningful without IMPLICIT tags / ANY / untagged CHOICE"""
    k = t[0]
    if k == 'tag':
        return t[1] == 'i' or sigs_needs_schema(t[4])
    if k in ('seq', 'set', 'choice'):
        return any(sigs_needs_schema(f[2]) for f in t[1])
    if k in ('seqof', 'setof'):
        return sigs_needs_schema(t[1])
    return k == 'any'


def run(rep, tier, seed):
    common.prove(rep)
    rng = common.rng_for(seed, 'C06')
    drv = common.Driver()
    # a read the stream cannot satisfy, at the source level: readFromStream's turn is translated from the source on every
    # run (GenK.readTurn) and Props/C06 source_truncated_open_is_underrun / source_truncated_closed_is_end_of_stream /
    # source_complete_read_is_data are theorems about that translation; it is run against the real generator here
    from harness import kernels
    kernels.obligations(rep, ['readTurn', 'eosTurn'])
    kernels.check(rep, drv, seed, 300 if tier == 'quick' else 10000, which=('readTurn',))
    n = 700 if tier == "quick" else 6000
    rep.rule = ('valid encodings (BER definite/indefinite/chunked, CER, DER) of generated values x every cut point k in [0,|e|) '
                '(sampled cuts for encodings longer than 40 octets) x {bytes one-shot, seekable stream, non-seekable stream; '
                'closed at the cut / still open} x {with, without guiding type}; non-trivial = type depth>=1 or tagged')
    rep.assumptions = ['stream doubles implement the contract read()->None / b"" / short read',
                       'OS pipes and sockets are not exercised']
    from harness import sexp_types
    for ts, vs, mode in CORPUS:
        t = sexp_types.ty_of_sexp(gen.parse_sexps(ts)[0])
        v = gen.val_of_sexp(gen.parse_sexps(vs)[0])
        case = engine.Case(t, v)
        rep.case('corpus ' + case.canon)
        check_case(rep, drv, case, [mode], rng)
    check_megabyte_elements(rep)
    for case in engine.gen_cases(rng, n, max_depth=2, allow_any=True):
        if not engine.representable(case):
            continue
        rep.case(case.canon, nontrivial=gen.nontrivial(case.t),
                 sample={'type': gen.ty_sexp(case.t)[:300], 'value': gen.val_sexp(case.v)[:300]})
        modes = [rng.choice([('ber', True, 0), ('ber', False, 0), ('ber', True, rng.choice([1, 2, 3, 7])),
                             ('ber', False, rng.choice([1, 2, 3, 7]))]),
                 rng.choice([('cer', False, 1000), ('der', True, 0)])]
        check_case(rep, drv, case, modes, rng, all_cuts=(tier == 'thorough'))

    def check_one(c, drv, case, r):
        check_case(c, drv, case, [tuple(r.get('enc', ['ber', True, 0]))], common.rng_for(0, 'shrink'))
    engine.post_shrink(rep, drv, check_one)
    drv.close()


def replay(path):
    d = json.load(open(path))
    print(json.dumps(d, indent=1)[:6000])
    return 0
