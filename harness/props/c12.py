"""C12 — codec calls are pure: no effect on schemas, inputs, configuration or each other (DESIGN §5 C12)."""
import io
import json
import threading

from harness import common, gen, codec, engine, streams, sigs, wire
from pyasn1 import debug, error
from pyasn1.type import base as pbase, univ, tag


def shape(obj, depth=0):
    """structural snapshot of an object WITHOUT instantiating anything: value/schema status, stored components"""
    if depth > 12:
        return '...'
    if isinstance(obj, (univ.Sequence, univ.Set)) and not isinstance(obj, univ.Choice):
        cv = obj._componentValues
        if cv is pbase.noValue:
            return ('record', 'schema')
        return ('record', [shape(c, depth + 1) if c is not pbase.noValue else None for c in cv])
    if isinstance(obj, univ.Choice):
        cv = obj._componentValues
        if cv is pbase.noValue:
            return ('choice', 'schema')
        return ('choice', obj._currentIdx, [shape(c, depth + 1) if c is not pbase.noValue else None for c in cv])
    if isinstance(obj, (univ.SequenceOf, univ.SetOf)):
        cv = obj._componentValues
        if cv is pbase.noValue:
            return ('list', 'schema')
        return ('list', sorted((k, shape(c, depth + 1)) for k, c in cv.items()))
    if obj is pbase.noValue:
        return None
    try:
        return ('scalar', obj.isValue, repr(obj._value) if obj.isValue else None)
    except Exception:  # noqa
        return ('scalar', '?')


def compare_outcome(a, b):
    try:
        return ('ok', bool(a == b))
    except Exception as e:  # noqa
        return ('raises', codec.classify(e))


def snapshot(case, obj, peer):
    s = {'shape': shape(obj)}
    try:
        s['abstract'] = gen.val_sexp(gen.abstract(case.t, obj))
    except Exception as e:  # noqa
        s['abstract'] = 'ERR ' + type(e).__name__
    return s


def call(op, case, obj_or_data, schema, mode):
    """one codec call -> canonical outcome"""
    cdc, dm, ch = mode
    try:
        if op == 'enc' and cdc == 'native':
            from pyasn1.codec.native import encoder as native_encoder
            return ('ok', repr(native_encoder.encode(obj_or_data)))
        if op == 'enc':
            kw = dict(defMode=dm, maxChunkSize=ch) if cdc == 'ber' else {}
            return ('ok', codec.ENC[cdc].encode(obj_or_data, **kw).hex())
        else:
            o, rest = codec.DEC[cdc].decode(obj_or_data, asn1Spec=schema)
            return ('ok', gen.val_sexp(gen.abstract(case.t, o)), rest.hex())
    except Exception as e:  # noqa
        return ('err', codec.classify(e))


def check_encode_purity(rep, case, rng, leave_defaults_out=False):
    from harness.props import c04
    import random as _random
    for mode in [('ber', True, 0), ('ber', False, 2), ('cer', False, 1000), ('der', True, 0), ('native', True, 0)]:
        if leave_defaults_out:
            # members equal to their DEFAULT never assigned (the encoder must not materialise them in the value)
            try:
                obj = c04.build_shuffled(_random.Random(1), case.t, case.v, case.schema, False)
                peer = c04.build_shuffled(_random.Random(1), case.t, case.v, case.schema, False)
            except Exception:  # noqa
                return
        else:
            obj = case.fresh_obj()
            peer = case.fresh_obj()
        before = snapshot(case, obj, peer)
        cmp_before = compare_outcome(obj, peer)
        r1 = call('enc', case, obj, None, mode)
        after = snapshot(case, obj, peer)
        if mode[0] == 'native':
            # the native encoder reads through the ordinary accessors, which leave a placeholder (a schema object, not a
            # value) in the slot of an absent OPTIONAL member - recorded elsewhere (T4) and not a change of the abstract
            # content, the encoding or the comparison behaviour: compare those three, not the slot layout
            before = {'abstract': before['abstract']}
            after = {'abstract': after['abstract']}
            # the encodings of the value before (taken from an untouched twin) and after the native conversion
            b_twin = call('enc', case, peer, None, ('ber', True, 0))
            b_obj = call('enc', case, obj, None, ('ber', True, 0))
            if b_twin != b_obj:
                rep.fail('encode-mutates-value', 'BER encoding of the value after native.encode() %s, of an untouched twin %s' % (
                    str(b_obj)[:120], str(b_twin)[:120]), dict(case.replay, kind='encode-purity', mode=list(mode)))
        cmp_after = compare_outcome(obj, peer)
        r2 = call('enc', case, obj, None, mode)
        replay = dict(case.replay, kind='encode-purity', mode=list(mode))
        if before != after:
            rep.fail('encode-mutates-value', 'value changed by %s encoding: %s -> %s' % (mode[0], str(before)[:200], str(after)[:200]), replay)
        elif cmp_before != cmp_after:
            rep.fail('encode-changes-comparison', '== before %s, after %s' % (cmp_before, cmp_after), replay)
        elif r1 != r2:
            rep.fail('encode-not-repeatable', 'second encoding differs', replay)
        rep.count('encode-purity')


def type_shape(obj, depth=0):
    """snapshot of a schema object including the DEFAULT values it declares (they are shared objects)"""
    if depth > 10:
        return '...'
    out = [shape(obj)]
    ro = getattr(obj, '_readOnly', None)
    if isinstance(ro, dict):
        # the initialisers every later clone()/subtype() of this object starts from
        out.append(('readOnly', sorted((k, repr(v)) for k, v in ro.items())))
    ct = getattr(obj, 'componentType', None)
    if ct is not None and ct is not pbase.noValue:
        if hasattr(ct, 'namedTypes'):
            for nt in ct.namedTypes:
                out.append((nt.name, nt.isDefaulted, type_shape(nt.asn1Object, depth + 1)))
        elif isinstance(ct, pbase.Asn1Item):
            out.append(type_shape(ct, depth + 1))
    return out


def schema_shape(case):
    return type_shape(case.schema), repr(case.schema.tagSet), case.schema.isValue


def check_decode_purity(rep, case, rng):
    mode = rng.choice([('ber', True, 0), ('ber', False, 0), ('cer', False, 1000), ('der', True, 0)])
    ie = codec.impl_encode(mode[0], case.t, case.v, mode[1], mode[2], obj=case.fresh_obj())
    if ie[0] != 'ok':
        return
    data = ie[1]
    replay = dict(case.replay, kind='decode-purity', mode=list(mode), bytes=data.hex())
    before = schema_shape(case)
    try:
        o1, _ = codec.DEC[mode[0]].decode(data, asn1Spec=case.schema)
        o2, _ = codec.DEC[mode[0]].decode(data, asn1Spec=case.schema)
    except Exception:  # noqa
        return
    if schema_shape(case) != before:
        rep.fail('decode-mutates-spec', 'guiding type object changed by decoding', replay)
        return
    # results share no mutable state with each other or with the spec: mutate o1 as far as possible
    s2 = snapshot(case, o2, None)
    try:
        mutate_all(o1)
    except Exception:  # noqa
        pass
    if snapshot(case, o2, None) != s2:
        rep.fail('decoded-results-share-state', 'mutating one decoded result changed another', replay)
    try:
        o3, _ = codec.DEC[mode[0]].decode(data, asn1Spec=case.schema)
        a3 = gen.val_sexp(gen.abstract(case.t, o3))
        if a3 != s2['abstract']:
            rep.fail('decode-depends-on-earlier-results', 'decoding again after mutating an earlier result gives %s, before %s' % (a3[:150], s2['abstract'][:150]), replay)
    except Exception:  # noqa
        pass
    if schema_shape(case) != before:
        rep.fail('decoded-result-shares-state-with-spec', 'mutating a decoded result changed the guiding type', replay)
    rep.count('decode-purity')


def check_decode_value_spec(rep, case, rng):
    """the guiding type may be an object that already holds a value (a configured default, a previous result): decoding
    through it must neither change it nor make results alias it or one another"""
    g = gen.Gen(rng, max_depth=3, allow_any=True)
    try:
        v2 = g.val(case.t)
        other = engine.Case(case.t, v2)
    except Exception:  # noqa
        return
    if not engine.representable(other):
        return
    mode = rng.choice([('ber', True, 0), ('ber', False, 0), ('cer', False, 1000), ('der', True, 0)])
    ie = codec.impl_encode(mode[0], other.t, other.v, mode[1], mode[2], obj=other.fresh_obj())
    if ie[0] != 'ok':
        return
    data = ie[1]
    spec = case.fresh_obj()                   # a value object of the same type, holding case.v
    replay = dict(case.replay, kind='decode-value-spec', mode=list(mode), bytes=data.hex(), decoded_value=gen.val_sexp(v2))
    try:
        before = (gen.val_sexp(gen.abstract(case.t, spec)), shape(spec))
    except Exception:  # noqa
        return
    try:
        o1, _ = codec.DEC[mode[0]].decode(data, asn1Spec=spec)
        o2, _ = codec.DEC[mode[0]].decode(data, asn1Spec=spec)
    except Exception:  # noqa
        return
    try:
        after = (gen.val_sexp(gen.abstract(case.t, spec)), shape(spec))
    except Exception as e:  # noqa
        after = ('unreadable: %r' % (e,), None)
    if after != before:
        rep.fail('decode-mutates-value-spec', 'a guiding object holding %s reads %s after decoding %s through it'
                 % (before[0][:100], str(after[0])[:100], gen.val_sexp(v2)[:100]), replay)
        return
    try:
        # reference: the same octets decoded through a fresh schema object of the type (what the octets denote is a
        # round-trip matter, C01/C02; here only the dependence on the guiding object's content matters)
        ref, _ = codec.DEC[mode[0]].decode(data, asn1Spec=engine.Case(case.t, case.v).schema)
        a1 = gen.val_sexp(gen.abstract(case.t, o1))
        aref = gen.val_sexp(gen.abstract(case.t, ref))
    except Exception:  # noqa
        a1 = aref = None
    if a1 != aref:
        rep.fail('value-spec-changes-result', 'decoding through a guiding object that holds a value gives %s, through a fresh schema %s'
                 % (a1[:150], aref[:150]), replay)
        return
    s2 = snapshot(other, o2, None)
    try:
        mutate_all(o1)
    except Exception:  # noqa
        pass
    if snapshot(other, o2, None) != s2:
        rep.fail('decoded-results-share-state', 'mutating one result decoded through a value-holding guide changed another', replay)
    try:
        after = (gen.val_sexp(gen.abstract(case.t, spec)), shape(spec))
    except Exception as e:  # noqa
        after = ('unreadable: %r' % (e,), None)
    if after != before:
        rep.fail('decoded-result-shares-state-with-spec', 'mutating a decoded result changed the value-holding guiding object', replay)
    rep.count('decode-value-spec')


def mutate_all(obj, depth=0):
    if depth > 8:
        return
    if isinstance(obj, pbase.SimpleAsn1Type):
        # scalars are immutable: an augmented assignment on a name bound to one rebinds the name and leaves the object - which
        # may be the schema's own DEFAULT value, or shared with another result - as it was
        import operator
        for op, arg in ((operator.iadd, 1), (operator.isub, 1), (operator.imul, 2), (operator.ior, 1), (operator.iand, 1),
                        (operator.ixor, 1), (operator.ilshift, 1), (operator.irshift, 1), (operator.ifloordiv, 2), (operator.imod, 2),
                        (operator.ipow, 2), (operator.iadd, b'x'), (operator.imul, 2), (operator.iadd, (1,)), (operator.iadd, 'x')):
            x = obj
            try:
                x = op(x, arg)
            except Exception:  # noqa
                pass
        return
    if isinstance(obj, univ.Choice):
        c = obj.getComponent()
        mutate_all(c, depth + 1)
        return
    if isinstance(obj, (univ.Sequence, univ.Set)):
        for i in range(len(obj.componentType) if obj.componentType else len(obj)):
            # the ordinary accessor: an absent DEFAULT member is materialised from the declared default
            try:
                c = obj.getComponentByPosition(i)
            except Exception:  # noqa
                c = None
            if c is not None and c is not pbase.noValue:
                mutate_all(c, depth + 1)
        obj.clear()
        return
    if isinstance(obj, (univ.SequenceOf, univ.SetOf)):
        for i in range(len(obj)):
            mutate_all(obj.getComponentByPosition(i, instantiate=False), depth + 1)
        try:
            obj.append(obj.componentType.clone() if not isinstance(obj.componentType, pbase.SimpleAsn1Type) else obj.componentType.clone(0))
        except Exception:  # noqa
            pass
        # "append by reading": the accessor creates the element one past the end; what it hands out is the caller's to fill
        try:
            fresh = obj.getComponentByPosition(len(obj))
            if isinstance(fresh, (univ.SequenceOf, univ.SetOf)):
                inner = fresh.componentType
                fresh.append(inner.clone() if not isinstance(inner, pbase.SimpleAsn1Type) else inner.clone(0))
                fresh.getComponentByPosition(len(fresh))
            elif isinstance(fresh, (univ.Sequence, univ.Set)):
                for i in range(len(fresh.componentType)):
                    fresh.getComponentByPosition(i)
            elif isinstance(fresh, univ.Choice):
                fresh.getComponentByPosition(0)
        except Exception:  # noqa
            pass
        obj.clear()


def check_schemaless_results_independent(rep):
    """results of decoding without a guiding type share nothing with each other or with the codec's prototypes: decode the
    same octets twice (same and different codecs), mutate the first result everywhere, the second must read and re-encode
    as before, and a third decode afterwards must give the original result - empty containers, the boundary case in which
    the decoder has no component to build the result from, included"""
    from pyasn1.codec.ber import decoder as bdec, encoder as benc
    from pyasn1.codec.cer import decoder as cdec
    from pyasn1.codec.der import decoder as ddec
    inputs = ['3000', '3100', '30800000', '31800000', '300430003000', '3006300031003000', 'a0023000', 'a080308000000000',
              '30030201 05'.replace(' ', ''), '3006020105020106', '30080201050401613000', '310302010a', '0400', '0403616263',
              '240704026162040163', '3005a003020105', '300a3003020101300302010 2'.replace(' ', '')]
    decs = [('ber', bdec), ('cer', cdec), ('der', ddec)]

    def grow(obj, depth=0):
        """add something to every container reachable in obj"""
        if depth > 6:
            return
        if isinstance(obj, (univ.SequenceOf, univ.SetOf)):
            for i in range(len(obj)):
                grow(obj.getComponentByPosition(i, instantiate=False), depth + 1)
            obj.append(univ.Integer(77))
        elif isinstance(obj, (univ.Sequence, univ.Set)):
            for i in range(len(obj)):
                c = obj.getComponentByPosition(i, instantiate=False)
                if c is not None and c is not pbase.noValue:
                    grow(c, depth + 1)
            try:
                obj.setComponentByPosition(len(obj), univ.Integer(77))
            except Exception:  # noqa
                pass

    def look(obj):
        try:
            return (type(obj).__name__, obj.prettyPrint(), bytes(benc.encode(obj)).hex())
        except Exception as e:  # noqa
            return ('unencodable', type(e).__name__, '')
    for hx in inputs:
        data = bytes.fromhex(hx)
        for (n1, d1) in decs:
            for (n2, d2) in decs:
                try:
                    a, _ = d1.decode(data)
                    b, _ = d2.decode(data)
                except Exception:  # noqa
                    continue
                rep.evaluations += 1
                rep.count('schemaless-independence')
                case = {'kind': 'schemaless-independence', 'bytes': hx, 'first': n1, 'second': n2}
                before = look(b)
                if a is b:
                    rep.fail('schemaless-results-same-object', 'two schemaless decodes of %s (%s, %s) returned the same object' % (hx, n1, n2), case)
                    continue
                grow(a)
                after = look(b)
                if after != before:
                    rep.fail('schemaless-results-share-state', 'changing the result of one schemaless decode of %s (%s) changed the result of '
                             'another (%s): %s -> %s' % (hx, n1, n2, before[1][:80].replace('\n', ' '), after[1][:80].replace('\n', ' ')), case)
                try:
                    c, _ = d2.decode(data)
                except Exception as e:  # noqa
                    rep.fail('schemaless-history-dependent', 'a decode of %s that succeeded fails after a result was changed: %s' % (hx, e), case)
                    continue
                if look(c) != before:
                    rep.fail('schemaless-history-dependent', 'schemaless decode of %s (%s) gives %s after the result of an earlier decode was changed, '
                             '%s before' % (hx, n2, look(c)[1][:80].replace('\n', ' '), before[1][:80].replace('\n', ' ')), case)


def check_explicit_constructed_defaults(rep):
    """a DEFAULT member of constructed type written out explicitly with the value of its default (BER permits it; DER
    forbids it but the decoders read it): the decoded result must not hold the guiding type's own default object -
    changing the member in one result leaves the guiding type, its encoding of an empty record, and every other result
    as they were"""
    from pyasn1.type import namedtype, tag as ptag
    from pyasn1.codec.ber import decoder as bdec, encoder as benc
    from pyasn1.codec.cer import decoder as cdec
    from pyasn1.codec.der import decoder as ddec

    def ctx(n, t):
        return t.subtype(implicitTag=ptag.Tag(ptag.tagClassContext, ptag.tagFormatConstructed, n))
    ints = univ.SequenceOf(componentType=univ.Integer())
    d_seqof = ints.clone()
    d_seqof.extend([1, 2])
    d_setof = univ.SetOf(componentType=univ.Integer())
    d_setof.extend([3])
    inner = univ.Sequence(componentType=namedtype.NamedTypes(namedtype.NamedType('x', univ.Integer()),
                                                             namedtype.OptionalNamedType('y', univ.Boolean())))
    d_seq = inner.clone()
    d_seq['x'] = 3
    d_set = univ.Set(componentType=namedtype.NamedTypes(namedtype.NamedType('x', univ.Integer())))
    d_set['x'] = 4
    shapes = [('seqof', d_seqof, '3006020101020102'), ('setof', d_setof, '3103020103'), ('seq', d_seq, '3003020103'),
              ('set', d_set, '3103020104')]
    for name, dflt, member_hex in shapes:
        for holder_cls, htag in ((univ.Sequence, '30'), (univ.Set, '31')):
            for defmode in (True, False):
                schema = holder_cls(componentType=namedtype.NamedTypes(
                    namedtype.NamedType('id', univ.Boolean()), namedtype.DefaultedNamedType('d', dflt)))
                body = bytes.fromhex('0101ff' + member_hex)
                data = bytes.fromhex(htag) + (bytes([len(body)]) + body if defmode else b'\x80' + body + b'\x00\x00')
                case = {'kind': 'explicit-constructed-default', 'default': name, 'holder': holder_cls.__name__,
                        'definite': defmode, 'bytes': data.hex()}
                for dn, dec in (('ber', bdec), ('cer', cdec), ('der', ddec)):
                    rep.evaluations += 1
                    rep.count('explicit-constructed-defaults')
                    before = (type_shape(schema), bytes(benc.encode(schema.componentType[1].asn1Object)).hex())
                    try:
                        a, ra = dec.decode(data, asn1Spec=schema)
                        b, rb = dec.decode(data, asn1Spec=schema)
                    except error.PyAsn1Error:
                        continue        # a decoder may refuse the non-canonical form; that is C02's matter
                    look_b = b.prettyPrint()
                    if a['d'] is schema.componentType[1].asn1Object or a['d'] is b['d']:
                        rep.fail('decoded-member-is-the-default-object', '%s decoder: the %s member of the result IS the guiding '
                                 "type's default object (or the other result's member)" % (dn, name), dict(case, codec=dn))
                        continue
                    try:
                        m = a['d']
                        if isinstance(m, (univ.SequenceOf, univ.SetOf)):
                            m.append(99)
                        else:
                            m['x'] = 99
                    except Exception as e:  # noqa
                        rep.fail('decoded-member-not-writable-' + type(e).__name__, str(e), dict(case, codec=dn))
                        continue
                    after = (type_shape(schema), bytes(benc.encode(schema.componentType[1].asn1Object)).hex())
                    if after != before:
                        rep.fail('decoded-result-shares-state-with-spec', '%s decoder: changing the %s member of a decoded result '
                                 "changed the guiding type's DEFAULT (%s -> %s)" % (dn, name, before[1], after[1]), dict(case, codec=dn))
                    if b.prettyPrint() != look_b:
                        rep.fail('decoded-results-share-state', '%s decoder: changing the %s member of one result changed another '
                                 'result' % (dn, name), dict(case, codec=dn))


def check_substrate_fun_gets_fresh_object(rep):
    """decoding with a `substrateFun` hook (a lazy decoder that keeps the raw contents and fills the container it is handed):
    what the hook receives for a constructed guiding type is a fresh object each time - never the guiding type itself,
    never the object of another call - so filling it leaves the guiding type and earlier results alone"""
    from pyasn1.type import namedtype
    from pyasn1.codec.ber import decoder as bdec
    from pyasn1.codec.der import decoder as ddec
    ints_t = univ.SequenceOf(componentType=univ.Integer())
    set_t = univ.SetOf(componentType=univ.Integer())
    rec_t = univ.Sequence(componentType=namedtype.NamedTypes(namedtype.NamedType('a', univ.Integer()), namedtype.OptionalNamedType('b', univ.Integer())))
    cases = [('seqof', ints_t, '3006020101020102', '30800201070000'), ('setof', set_t, '3106020101020102', '31800201070000'),
             ('seq', rec_t, '3006020101020102', '30800201070000')]
    for name, spec, h_def, h_indef in cases:
        for dn, dec in (('ber', bdec), ('der', ddec)):
            handed = []

            def hook(asn1Object, substrate, length, options):
                handed.append(asn1Object)
                raw = substrate.read() if length == -1 else substrate.read(length)
                # the lazy decoder fills the container it was given
                vals = [b for b in raw if b not in (0, 1, 2)] or [9]
                try:
                    if isinstance(asn1Object, (univ.SequenceOf, univ.SetOf)):
                        asn1Object.extend(vals[:2])
                    else:
                        asn1Object['a'] = vals[0]
                except Exception:  # noqa
                    pass
                yield asn1Object
            before = type_shape(spec)
            results = []
            for hx in ([h_def, h_def, h_indef] if dn == 'ber' else [h_def, h_def]):
                rep.evaluations += 1
                rep.count('substrate-fun-calls')
                case = {'kind': 'substrate-fun', 'type': name, 'codec': dn, 'bytes': hx}
                try:
                    obj, rest = dec.decode(bytes.fromhex(hx), asn1Spec=spec, substrateFun=hook)
                except Exception as e:  # noqa
                    rep.fail('substrate-fun-' + codec.classify(e), '%s: %r' % (name, e), case)
                    break
                if any(h is spec for h in handed):
                    rep.fail('substrate-fun-handed-the-spec', 'the hook was handed the guiding type object itself (%s, %s decoder)' % (name, dn), case)
                    break
                if len(set(map(id, handed))) != len(handed):
                    rep.fail('substrate-fun-handed-same-object-twice', 'two calls handed the hook the same object (%s, %s decoder)' % (name, dn), case)
                    break
                results.append(obj)
            if type_shape(spec) != before:
                rep.fail('decode-mutates-spec', 'filling the container a substrateFun hook was handed changed the guiding type (%s, %s decoder)' % (name, dn),
                         {'kind': 'substrate-fun', 'type': name, 'codec': dn})


def check_mutable_inputs(rep):
    """value objects built from a caller's mutable buffer (bytearray) do not keep it: after the buffer is refilled or changed,
    every object built from it - by the constructor, clone(), the native decoder (scalars and record members), the BER
    encoder's value-plus-schema path - reads, hashes, compares and encodes as it did; and two objects built from the same
    buffer at different times are independent"""
    from pyasn1.codec.native import decoder as ndec
    from pyasn1.codec.ber import encoder as benc
    from pyasn1.type import namedtype, char
    rec_t = univ.Sequence(componentType=namedtype.NamedTypes(namedtype.NamedType('o', univ.OctetString()),
                                                              namedtype.NamedType('a', univ.Any()),
                                                              namedtype.NamedType('u', char.UTF8String())))
    makers = [
        ('OctetString(buf)', lambda buf: univ.OctetString(buf)),
        ('OctetString().clone(buf)', lambda buf: univ.OctetString().clone(buf)),
        ('Any(buf)', lambda buf: univ.Any(buf)),
        ('UTF8String().clone(buf)', lambda buf: char.UTF8String().clone(buf)),
        ('OctetString(b"").subtype(value=buf)', lambda buf: univ.OctetString(b'').subtype(buf)),
        ('native OctetString', lambda buf: ndec.decode(buf, asn1Spec=univ.OctetString())),
        ('native Any', lambda buf: ndec.decode(buf, asn1Spec=univ.Any())),
        ('native record', lambda buf: ndec.decode({'o': buf, 'a': buf, 'u': buf}, asn1Spec=rec_t)),
        ('seqof.append(buf)', lambda buf: (lambda s: (s.append(buf), s)[1])(univ.SequenceOf(componentType=univ.OctetString()))),
    ]

    def look(o):
        try:
            return benc.encode(o).hex()
        except Exception as e:  # noqa
            return 'unencodable:' + type(e).__name__
    for name, mk in makers:
        rep.evaluations += 1
        rep.count('mutable-inputs')
        case = {'kind': 'mutable-input', 'maker': name}
        buf = bytearray(b'\x04\x03abc')
        try:
            first = mk(buf)
        except Exception as e:  # noqa
            continue            # the form is not accepted at all: nothing to keep
        before = look(first)
        try:
            h0 = hash(first) if isinstance(first, pbase.SimpleAsn1Type) else None
        except Exception as e:  # noqa
            rep.fail('mutable-input-unhashable', '%s: hash() raised %s' % (name, type(e).__name__), case)
            h0 = None
        buf[2:] = b'XYZ'
        second = mk(buf)
        after = look(first)
        if after != before:
            rep.fail('value-shares-callers-buffer', '%s: the object read %s, and %s after the caller changed the buffer it was built from' % (
                name, before, after), case)
            continue
        if look(second) == before:
            rep.fail('mutable-input-stale', '%s: an object built after the buffer changed reads like the earlier one' % name, case)
        buf[:] = b'\x05\x00'
        if look(first) != before or (h0 is not None and hash(first) != h0):
            rep.fail('value-shares-callers-buffer', '%s: the object changed when the buffer was refilled' % name, case)
    # value + schema encoding of a bytearray: the octets are those of the moment of the call
    buf = bytearray(b'abc')
    for cdc in ('ber', 'cer', 'der'):
        try:
            e1 = codec.ENC[cdc].encode(buf, asn1Spec=univ.OctetString())
            buf2 = bytearray(b'abc')
            e2 = codec.ENC[cdc].encode(bytes(buf2), asn1Spec=univ.OctetString())
        except Exception:  # noqa
            continue
        rep.count('mutable-inputs')
        if e1 != e2:
            rep.fail('bytearray-vs-bytes-encoding', '%s encoding of a bytearray %s differs from that of the same bytes %s' % (cdc, e1.hex(), e2.hex()),
                     {'kind': 'mutable-input', 'maker': cdc + ' value+schema'})


def history(rep, cases, rng, log=False):
    """a sequence of calls sharing schema objects and codec singletons vs each call alone on fresh objects"""
    steps = []
    for _ in range(rng.randrange(4, 16)):
        c = rng.choice(cases)
        mode = rng.choice([('ber', True, 0), ('ber', False, 0), ('ber', True, 3), ('cer', False, 1000), ('der', True, 0)])
        steps.append((rng.choice(['enc', 'dec', 'dec', 'encdec']), c, mode))
    shared = []
    for op, c, mode in steps:
        if op == 'enc':
            shared.append(call('enc', c, c.fresh_obj(), None, mode))
        else:
            e = call('enc', c, c.fresh_obj(), None, mode)
            if e[0] == 'ok':
                shared.append(call('dec', c, bytes.fromhex(e[1]), c.schema, mode))
            else:
                shared.append(e)
    alone = []
    for op, c, mode in steps:
        f = engine.Case(c.t, c.v)          # fresh schema and value objects
        if op == 'enc':
            alone.append(call('enc', f, f.fresh_obj(), None, mode))
        else:
            e = call('enc', f, f.fresh_obj(), None, mode)
            if e[0] == 'ok':
                alone.append(call('dec', f, bytes.fromhex(e[1]), f.schema, mode))
            else:
                alone.append(e)
    rep.count('histories')
    if shared != alone:
        i = [k for k in range(len(steps)) if shared[k] != alone[k]][0]
        rep.fail('history-dependent' + ('-with-logging' if log else ''), 'call %d of a history gives %s, alone %s' % (i, str(shared[i])[:160], str(alone[i])[:160]),
                 {'kind': 'history', 'steps': [[op, gen.ty_sexp(c.t), gen.val_sexp(c.v), list(m)] for op, c, m in steps]})


def fixed_histories(rep):
    """library-only histories on one schema object: the value-plus-schema encoders and keyword clones are given the
    schema object first, then the same object guides a decode; the decode must behave as with a fresh schema object"""
    from pyasn1.type import tag, constraint
    from pyasn1 import error as perror

    def specs():
        blob = univ.OctetString().subtype(implicitTag=tag.Tag(tag.tagClassContext, tag.tagFormatSimple, 3))
        bits = univ.BitString().subtype(implicitTag=tag.Tag(tag.tagClassContext, tag.tagFormatSimple, 4))
        small = univ.Integer().subtype(subtypeSpec=constraint.ValueRangeConstraint(0, 10))
        return [('blob', blob, [b'\x83\x03abc', b'\x04\x03abc']), ('bits', bits, [b'\x84\x02\x07\x80', b'\x03\x02\x07\x80']),
                ('small', small, [b'\x02\x01\x05', b'\x02\x02\x01\xf4'])]

    def outcome(spec, data):
        try:
            v, rest = codec.DEC['ber'].decode(data, asn1Spec=spec)
            return ('ok', repr(v.tagSet), v.prettyPrint(), codec.ENC['ber'].encode(v).hex(), rest.hex())
        except perror.PyAsn1Error:
            return ('liberr',)
        except Exception as e:  # noqa
            return ('leak', type(e).__name__)

    priors = {
        'cer-encode-long-bare-value': lambda sp: codec.ENC['cer'].encode(b'x' * 1500, asn1Spec=sp),
        'ber-encode-chunked-bare-value': lambda sp: codec.ENC['ber'].encode(b'y' * 40, asn1Spec=sp, maxChunkSize=7),
        'cer-encode-long-bit-text': lambda sp: codec.ENC['cer'].encode('1' * 9000, asn1Spec=sp),
        'der-encode-bare-int': lambda sp: codec.ENC['der'].encode(7, asn1Spec=sp),
        'keyword-clone-wider': lambda sp: sp.clone(subtypeSpec=constraint.ValueRangeConstraint(-1000, 1000)),
        'keyword-clone-retagged': lambda sp: sp.clone(tagSet=tag.initTagSet(tag.Tag(tag.tagClassPrivate, tag.tagFormatSimple, 9))),
        'subtype-wider': lambda sp: sp.subtype(subtypeSpec=constraint.ValueSizeConstraint(0, 100000)),
    }
    for pname, prior in sorted(priors.items()):
        for (name, spec, inputs), (_, fresh, _) in zip(specs(), specs()):
            before = type_shape(spec)
            try:
                prior(spec)
            except Exception:  # noqa
                pass
            rep.count('fixed-histories')
            rep.case('fixed-history %s %s' % (pname, name), nontrivial=True)
            if type_shape(spec) != before:
                rep.fail('call-mutates-spec:' + pname, '%s changed the schema object %s it was given' % (pname, name),
                         {'kind': 'fixed-history', 'prior': pname, 'spec': name})
                continue
            for data in inputs:
                a, b = outcome(spec, data), outcome(fresh, data)
                if a != b:
                    rep.fail('history-dependent:' + pname, 'decode of %s with %s after %s gives %s, with a fresh schema %s'
                             % (data.hex(), name, pname, a, b), {'kind': 'fixed-history', 'prior': pname, 'spec': name, 'bytes': data.hex()})


def cross_call_forms(rep):
    """the same identifier (class, number) met in both forms - primitive and constructed - by successive calls, by
    different decoders and by different schemas: each outcome is what the octets denote (written out here), whatever
    was decoded before in the process"""
    from pyasn1.type import tag, namedtype
    from harness import wire
    CLS = {'c': tag.tagClassContext, 'a': tag.tagClassApplication, 'p': tag.tagClassPrivate}
    for cls in 'cap':
        for num in (5, 30, 31, 100, 1000, 2 ** 32):
            ostr = univ.OctetString().subtype(implicitTag=tag.Tag(CLS[cls], tag.tagFormatSimple, num))
            integer = univ.Integer().subtype(implicitTag=tag.Tag(CLS[cls], tag.tagFormatSimple, num))
            record = univ.Sequence(componentType=namedtype.NamedTypes(namedtype.NamedType('a', univ.Integer()))).subtype(
                implicitTag=tag.Tag(CLS[cls], tag.tagFormatSimple, num))
            prim = wire.emit_ident(cls, False, num) + b'\x04abcd'
            cons = wire.emit_ident(cls, True, num) + b'\x08\x04\x02ab\x04\x02cd'
            cons_indef = wire.emit_ident(cls, True, num) + b'\x80\x04\x02ab\x04\x02cd\x00\x00'
            int_enc = wire.emit_ident(cls, False, num) + b'\x01\x07'
            rec_enc = wire.emit_ident(cls, True, num) + b'\x03\x02\x01\x09'
            calls = [('ber', ostr, prim, 'abcd'), ('ber', ostr, cons, 'abcd'), ('ber', ostr, prim, 'abcd'), ('cer', ostr, cons_indef, 'abcd'),
                     ('der', integer, int_enc, '7'), ('ber', record, rec_enc, 'rec9'), ('der', integer, int_enc, '7'),
                     ('ber', ostr, cons, 'abcd'), ('der', ostr, prim, 'abcd'), ('ber', record, rec_enc, 'rec9')]
            for i, (cdc, spec, data, want) in enumerate(calls):
                rep.count('cross-call-forms')
                try:
                    v, rest = codec.DEC[cdc].decode(data, asn1Spec=spec)
                    got = ('rec%d' % int(v['a'])) if want.startswith('rec') else (str(int(v)) if want.isdigit() else bytes(v).decode())
                    if rest:
                        got += '+rest'
                except Exception as e:  # noqa
                    got = 'ERR ' + type(e).__name__
                if got != want:
                    rep.fail('history-dependent:identifier-forms', 'call %d (%s, %s) after calls on the same identifier in the other form '
                             'gives %s, the octets denote %s' % (i, cdc, data.hex(), got, want),
                             {'kind': 'cross-call-forms', 'class': cls, 'number': num, 'call': i, 'bytes': data.hex()})
                    break
            # the same within ONE decoder object: a stream of values read by one StreamingDecoder, and the elements of one
            # SEQUENCE OF / members of one record read by one call - both forms of the identifier in either order
            import io
            for order in ([prim, cons, prim, cons_indef, cons, prim], [cons, prim, cons_indef, prim], [cons_indef, prim, cons]):
                for cdc in ('ber', 'cer'):
                    if cdc == 'cer' and cons in order:
                        continue
                    rep.count('one-decoder-forms')
                    try:
                        got = [bytes(v).decode() for v in codec.DEC[cdc].StreamingDecoder(io.BytesIO(b''.join(order)), asn1Spec=ostr)]
                    except Exception as e:  # noqa
                        got = 'ERR ' + type(e).__name__
                    if got != ['abcd'] * len(order):
                        rep.fail('history-dependent:identifier-forms-one-decoder', 'one %s StreamingDecoder over %s yields %s, every value denotes abcd' % (
                            cdc, b''.join(order).hex(), got), {'kind': 'one-decoder-forms', 'class': cls, 'number': num, 'bytes': b''.join(order).hex()})
                        break
                body = b''.join(order[:3])
                if len(body) < 128:
                    rep.count('one-call-forms')
                    try:
                        v, rest = codec.DEC['ber'].decode(b'\x30' + bytes([len(body)]) + body, asn1Spec=univ.SequenceOf(componentType=ostr))
                        got = [bytes(x).decode() for x in v] + (['+rest'] if rest else [])
                    except Exception as e:  # noqa
                        got = 'ERR ' + type(e).__name__
                    if got != ['abcd'] * 3:
                        rep.fail('history-dependent:identifier-forms-one-call', 'SEQUENCE OF with elements %s decodes to %s, every element denotes abcd' % (
                            body.hex(), got), {'kind': 'one-call-forms', 'class': cls, 'number': num, 'bytes': body.hex()})
            # two strings under the SAME explicit tag in one message, one in primitive and one in segmented form, either order,
            # with a guiding type and without
            ex_str = univ.OctetString().subtype(explicitTag=tag.Tag(CLS[cls], tag.tagFormatSimple, num))
            pair = univ.Sequence(componentType=namedtype.NamedTypes(namedtype.NamedType('a', ex_str), namedtype.NamedType('b', ex_str)))
            w_prim = wire.emit_ident(cls, True, num) + b'\x04\x04\x02ab'
            w_cons = wire.emit_ident(cls, True, num) + b'\x0a\x24\x08\x04\x02cd\x04\x02ef'
            for first_prim in (True, False):
                body = (w_prim + w_cons) if first_prim else (w_cons + w_prim)
                want = (b'ab', b'cdef') if first_prim else (b'cdef', b'ab')
                for spec in (pair, None):
                    rep.count('one-call-forms')
                    try:
                        v, rest = codec.DEC['ber'].decode(b'\x30' + bytes([len(body)]) + body, asn1Spec=spec)
                        got = (bytes(v[0]), bytes(v[1]), bytes(rest))
                    except Exception as e:  # noqa
                        got = 'ERR ' + type(e).__name__
                    if got != want + (b'',):
                        rep.fail('history-dependent:identifier-forms-one-call', 'two strings under one explicit tag, %s first (%s guiding type): %s' % (
                            'primitive' if first_prim else 'segmented', 'with' if spec is not None else 'without', got),
                                 {'kind': 'one-call-forms', 'class': cls, 'number': num, 'bytes': body.hex()})
            # an explicit wrapper (constructed) and an implicit primitive under the same class and number in one record
            wrapped = univ.Integer().subtype(explicitTag=tag.Tag(CLS[cls], tag.tagFormatSimple, num))
            for first_wrapped in (True, False):
                r2 = univ.Sequence(componentType=namedtype.NamedTypes(
                    namedtype.NamedType('a', wrapped if first_wrapped else integer), namedtype.NamedType('b', integer if first_wrapped else wrapped)))
                w_enc = wire.emit_ident(cls, True, num) + b'\x03\x02\x01\x09'
                body = (w_enc + int_enc) if first_wrapped else (int_enc + w_enc)
                rep.count('one-call-forms')
                try:
                    v, rest = codec.DEC['ber'].decode(b'\x30' + bytes([len(body)]) + body, asn1Spec=r2)
                    got = (int(v['a']), int(v['b']), bytes(rest))
                except Exception as e:  # noqa
                    got = 'ERR ' + type(e).__name__
                if got != ((9, 7, b'') if first_wrapped else (7, 9, b'')):
                    rep.fail('history-dependent:identifier-forms-one-call', 'record %s decodes to %s' % (body.hex(), got),
                             {'kind': 'one-call-forms', 'class': cls, 'number': num, 'bytes': body.hex()})


def interleave(rep, cases, rng):
    """k suspended streaming decoders over disjoint streams stepped by a seeded scheduler"""
    k = rng.randrange(2, 5)
    jobs = []
    for _ in range(k):
        c = rng.choice(cases)
        mode = rng.choice([('ber', True, 0), ('ber', False, 0), ('cer', False, 1000), ('der', True, 0)])
        e = codec.impl_encode(mode[0], c.t, c.v, mode[1], mode[2], obj=c.fresh_obj())
        if e[0] != 'ok':
            continue
        iso = call('dec', c, e[1], c.schema, mode)
        if iso[0] != 'ok' or iso[2] != '':
            continue
        s = streams.GrowingStream(seekable=rng.random() < 0.5)
        it = iter(codec.DEC[mode[0]].StreamingDecoder(s, asn1Spec=c.schema))
        jobs.append({'case': c, 'data': e[1], 'fed': 0, 'stream': s, 'it': it, 'out': None, 'iso': iso, 'mode': mode})
    live = [j for j in jobs]
    steps = 0
    trace = []
    while live and steps < 4000:
        steps += 1
        j = rng.choice(live)
        trace.append(jobs.index(j))
        try:
            x = next(j['it'])
        except StopIteration:
            live.remove(j)
            continue
        except Exception as e:  # noqa
            j['out'] = ('err', codec.classify(e))
            live.remove(j)
            continue
        if isinstance(x, error.SubstrateUnderrunError) or x is None:
            n = rng.randrange(1, 6)
            j['stream'].feed(j['data'][j['fed']:j['fed'] + n])
            j['fed'] += n
            if j['fed'] >= len(j['data']):
                j['stream'].close_input()
        else:
            try:
                j['out'] = ('ok', gen.val_sexp(gen.abstract(j['case'].t, x)), '')
            except Exception as e:  # noqa
                j['out'] = ('err', 'abstract:' + type(e).__name__)
            live.remove(j)
    rep.count('interleavings')
    for j in jobs:
        if j['out'] != j['iso']:
            rep.fail('interleaving-dependent', 'decoder %d of %d interleaved gives %s, alone %s' % (jobs.index(j), len(jobs), str(j['out'])[:160], str(j['iso'])[:160]),
                     {'kind': 'interleave', 'jobs': [[gen.ty_sexp(x['case'].t), x['data'].hex(), list(x['mode'])] for x in jobs], 'trace': trace[:400]})
            break


def threads(rep, cases, rng, nthreads=8, ncalls=60):
    plan = []
    for t in range(nthreads):
        calls = []
        for _ in range(ncalls):
            c = rng.choice(cases)
            mode = rng.choice([('ber', True, 0), ('ber', False, 0), ('cer', False, 1000), ('der', True, 0)])
            calls.append((c, mode))
        plan.append(calls)

    def one(c, mode):
        e = call('enc', c, c.fresh_obj(), None, mode)
        if e[0] != 'ok':
            return e
        return (e, call('dec', c, bytes.fromhex(e[1]), c.schema, mode))
    seq = [[one(c, m) for c, m in calls] for calls in plan]
    out = [None] * nthreads
    barrier = threading.Barrier(nthreads)

    def work(i):
        barrier.wait()
        out[i] = [one(c, m) for c, m in plan[i]]
    ts = [threading.Thread(target=work, args=(i,)) for i in range(nthreads)]
    for t in ts:
        t.start()
    for t in ts:
        t.join()
    rep.count('thread-rounds')
    if out != seq:
        rep.fail('thread-dependent', 'concurrent calls differ from the same calls run sequentially', {'kind': 'threads'})


def run(rep, tier, seed):
    common.prove(rep)
    rng = common.rng_for(seed, 'C12')
    n = 250 if tier == 'quick' else 8000
    rep.rule = ('encode purity (abstract content, stored-component shape, == outcome before/after; all codecs), decode purity (spec object '
                'unchanged; results share no state), call histories sharing schema objects and codec singletons vs isolated calls, '
                'interleavings of 2..4 suspended streaming decoders under a seeded scheduler, 8 threads x 60 calls behind a barrier, '
                'everything repeated with debug logging on; non-trivial = type depth>=1 or tagged')
    rep.assumptions = ['thread schedules are sampled (CPython GIL granularity), not enumerated', 'object snapshots read private component storage without instantiating']
    pool = []
    # corpus: DEFAULT members of constructed type, nested (the default object is shared by every decode)
    from harness import sexp_types
    CORPUS = [
        ("(seq (r int) (d (seq (of (i 1) (i 2) (i 3)) (i 9)) (seq (r (seqof int)) (r int))))", "(seq (i 7) (seq (of (i 1) (i 2) (i 3)) (i 9)))"),
        ("(seq (d (of (of (i 1)) (of)) (seqof (seqof int))) (r bool))", "(seq (of (of (i 1)) (of)) (b 1))"),
        ("(set (d (seq (seq (i 1) (b 1))) (tag e c 0 (seq (r (set (r int) (r bool)))))) (r null))", "(seq (seq (seq (i 1) (b 1))) null)"),
        ("(seq (d (ch 0 (of (i 5))) (tag e c 1 (choice (r (seqof int)) (r bool)))))", "(seq (ch 0 (of (i 5))))"),
    ]
    for ts, vs in CORPUS:
        c = engine.Case(sexp_types.ty_of_sexp(gen.parse_sexps(ts)[0]), gen.val_of_sexp(gen.parse_sexps(vs)[0]))
        rep.case('corpus ' + c.canon)
        for _ in range(3):
            check_decode_purity(rep, c, rng)
    for case in engine.gen_cases(rng, n, max_depth=3, allow_any=True):
        if not engine.representable(case):
            continue
        rep.case(case.canon, nontrivial=gen.nontrivial(case.t), sample={'type': gen.ty_sexp(case.t)[:200], 'value': gen.val_sexp(case.v)[:200]})
        check_decode_purity(rep, case, rng)
        check_decode_value_spec(rep, case, rng)
        if sigs.has_constructed_default(case.t) or sigs.has_real_default(case.t):
            continue      # == on those values raises by itself (findings T11/T12 of C01)
        check_encode_purity(rep, case, rng)
        if sigs._has_default_member(case.t):
            check_encode_purity(rep, case, rng, leave_defaults_out=True)
        if len(pool) < 400:
            pool.append(case)
    fixed_histories(rep)
    cross_call_forms(rep)
    check_schemaless_results_independent(rep)
    check_mutable_inputs(rep)
    rep.case('substrateFun hooks', nontrivial=True)
    check_substrate_fun_gets_fresh_object(rep)
    rep.case('explicit constructed defaults', nontrivial=True)
    check_explicit_constructed_defaults(rep)
    for i in range(60 if tier == 'quick' else 3000):
        history(rep, rng.sample(pool, min(len(pool), 6)), rng)
    for i in range(60 if tier == 'quick' else 3000):
        interleave(rep, pool, rng)
    for i in range(1 if tier == 'quick' else 20):
        threads(rep, pool, rng)
    # ---- switching debug logging on must not change any outcome: every pool case and a family of schemas in which an
    # ANY is among the candidate types at a position (its tag map carries skip types, which only the log code walks)
    from harness import sexp_types
    extra = []
    for ts, vs in [("(seq (o (seq (r int))) (r any))", "(seq (seq (i 5)) (any 0403616263))"),
                   ("(seq (o (seqof int)) (r any))", "(seq (of (i 1) (i 2)) (any 0101ff))"),
                   ("(seq (o (str 4)) (r any))", "(seq (s 6162636465666768) (any 0500))"),
                   ("(seq (o (tag e c 0 any)) (r (seq (r int))))", "(seq (any 020105) (seq (i 7)))"),
                   ("(seq (o bits) (r any))", "(seq (bits 1010101010101010101) (any 020105))"),
                   ("(seq (d (i 3) int) (r (tag i c 1 any)) (o (set (r bool))))", "(seq (i 4) (any 6162) (seq (b 1)))")]:
        try:
            extra.append(engine.Case(sexp_types.ty_of_sexp(gen.parse_sexps(ts)[0]), gen.val_of_sexp(gen.parse_sexps(vs)[0])))
        except Exception:  # noqa
            pass
    quiet = lambda m: None
    for c in extra + pool[:120 if tier == 'quick' else 400]:
        for mode in [('ber', True, 0), ('ber', False, 0), ('ber', True, 3), ('cer', False, 1000), ('der', True, 0)]:
            e = call('enc', c, c.fresh_obj(), None, mode)
            if e[0] != 'ok':
                continue
            data = bytes.fromhex(e[1])
            outs = []
            for logger in (None, debug.Debug('all', printer=quiet), None):
                debug.setLogger(logger)
                try:
                    f = engine.Case(c.t, c.v)
                    outs.append(call('dec', f, data, f.schema, mode))
                finally:
                    debug.setLogger(None)
            rep.count('logging-invariance')
            if not (outs[0] == outs[1] == outs[2]):
                rep.fail('logging-changes-outcome', 'decode gives %s with logging off, %s with logging on, %s off again'
                         % (str(outs[0])[:120], str(outs[1])[:120], str(outs[2])[:120]),
                         {'kind': 'logging', 'type': gen.ty_sexp(c.t), 'value': gen.val_sexp(c.v), 'mode': list(mode), 'bytes': e[1]})
    # ---- values that cannot be printed (beyond the int-to-str limit, not decodable into text): logging on must not turn
    # a codec call that succeeds into one that fails, for every codec (native included), encode and decode
    check_unprintable_values_with_logging(rep)
    check_suspended_decoders_with_logging(rep)
    # ---- the same with debug logging switched on
    sink = []
    debug.setLogger(debug.Debug('all', printer=lambda m: sink.append(len(m))))
    try:
        for i in range(30 if tier == 'quick' else 1000):
            history(rep, rng.sample(pool, min(len(pool), 6)), rng, log=True)
        for c in pool[:60 if tier == 'quick' else 400]:
            check_encode_purity(rep, c, rng)
            check_decode_purity(rep, c, rng)
    finally:
        debug.setLogger(None)
    rep.count('log-messages', len(sink))
    try:
        depth = len(debug.scope._list)
    except Exception:  # noqa
        depth = 0
    # informational only: a decode that raises leaves its entry on the global scope stack; that changes the text of
    # later log messages, not the outcome of any codec call (the property is about outcomes)
    rep.count('debug-scope-entries-left', depth)


def check_unprintable_values_with_logging(rep):
    from pyasn1.type import namedtype, char
    from pyasn1.codec.native import encoder as nenc, decoder as ndec
    big = 2 ** 20000
    rec = univ.Sequence(componentType=namedtype.NamedTypes(namedtype.NamedType('a', univ.OctetString(encoding='utf-8')),
                                                           namedtype.NamedType('b', univ.Integer())))
    rec['a'] = b'\xff\xfe'
    rec['b'] = big
    values = [('huge INTEGER', univ.Integer(big)), ('huge negative INTEGER', univ.Integer(-big)),
              ('huge ENUMERATED', univ.Enumerated(big)), ('OID with a huge arc', univ.ObjectIdentifier((1, 3, big))),
              ('BIT STRING of 80000 bits', univ.BitString((1,) * 80000)),
              ('OCTET STRING (utf-8) that is not utf-8', univ.OctetString(b'\xff\xfe', encoding='utf-8')),
              ('record holding both', rec), ('SEQUENCE OF huge INTEGER', univ.SequenceOf(componentType=univ.Integer()).clone())]
    values[-1][1].extend([big, 1])
    # the guiding type itself holds unprintable value objects: DEFAULTs (the decoders print the type they are guided by)
    dflt = univ.Sequence(componentType=namedtype.NamedTypes(
        namedtype.NamedType('id', univ.Integer()),
        namedtype.DefaultedNamedType('salt', univ.OctetString(b'\xff\xfe\x00\x80', encoding='utf-8')),
        namedtype.DefaultedNamedType('blob', univ.Any(b'\x04\x02\xff\xfe', encoding='utf-8').subtype(
            explicitTag=tag.Tag(tag.tagClassContext, tag.tagFormatConstructed, 1))),
        namedtype.DefaultedNamedType('count', univ.Integer(big).subtype(implicitTag=tag.Tag(tag.tagClassContext, tag.tagFormatSimple, 2)))))
    dv = dflt.clone()
    dv['id'] = 7
    values.append(('record whose DEFAULTs are unprintable', dv))
    dv2 = dflt.clone()
    dv2['id'] = 7
    dv2['salt'] = b'ok'
    dv2['count'] = 3
    values.append(('record with unprintable DEFAULTs, members set', dv2))
    # deep nesting: more scope entries alive at once than any bound a logger might put on its bookkeeping
    deep_t = univ.Integer()
    for _ in range(24):
        deep_t = univ.Sequence(componentType=namedtype.NamedTypes(namedtype.NamedType('x', deep_t)))
    deep_v = deep_t.clone()
    cur = deep_v
    for _ in range(23):
        cur = cur['x']
    cur['x'] = 5
    values.append(('INTEGER inside 24 nested SEQUENCEs', deep_v))
    quiet = lambda m: None  # noqa

    def outcome(f):
        try:
            r = f()
        except Exception as e:  # noqa
            return ('raises', type(e).__name__)
        return ('ok', r)
    for name, v in values:
        calls = [('ber.encode', lambda: bytes(codec.ENC['ber'].encode(v)).hex()),
                 ('ber.encode indefinite', lambda: bytes(codec.ENC['ber'].encode(v, defMode=False)).hex()),
                 ('der.encode', lambda: bytes(codec.ENC['der'].encode(v)).hex()),
                 ('cer.encode', lambda: bytes(codec.ENC['cer'].encode(v)).hex()),
                 ('native.encode', lambda: repr(type(nenc.encode(v))))]
        try:
            data = bytes(codec.ENC['der'].encode(v))
            calls += [('der.decode with type', lambda: bytes(codec.ENC['der'].encode(codec.DEC['der'].decode(data, asn1Spec=v.clone())[0])).hex()),
                      ('ber.decode without type', lambda: bytes(codec.ENC['der'].encode(codec.DEC['ber'].decode(data)[0])).hex()),
                      ('cer.decode with type', lambda: len(codec.DEC['cer'].decode(bytes(codec.ENC['cer'].encode(v)), asn1Spec=v.clone())[1]))]
        except Exception:  # noqa
            pass
        for cname, f in calls:
            rep.evaluations += 1
            rep.count('unprintable-with-logging')
            outs = []
            for logger in (None, debug.Debug('all', printer=quiet), None):
                debug.setLogger(logger)
                try:
                    outs.append(outcome(f))
                finally:
                    debug.setLogger(None)
            if not (outs[0] == outs[1] == outs[2]):
                rep.fail('logging-changes-outcome', '%s of %s: %s with logging off, %s with logging on, %s off again' % (
                    cname, name, str(outs[0])[:80], str(outs[1])[:80], str(outs[2])[:80]),
                    {'kind': 'logging-unprintable', 'value': name, 'call': cname})


def check_suspended_decoders_with_logging(rep):
    """several streaming decoders suspended inside nested values at the same time, resumed in turn: the same objects with
    logging off and on"""
    from pyasn1.type import namedtype
    from harness import streams
    t = univ.Integer()
    for _ in range(5):
        t = univ.Sequence(componentType=namedtype.NamedTypes(namedtype.NamedType('x', t)))
    v = t.clone()
    cur = v
    for _ in range(4):
        cur = cur['x']
    cur['x'] = 258
    data = bytes(codec.ENC['der'].encode(v))
    outs = []
    import concurrent.futures
    # the steps of a suspended decoder may be taken by different threads (a worker pool handling "more data arrived" events):
    # one step at a time, handed to the workers in turn - a deterministic schedule
    pools = [concurrent.futures.ThreadPoolExecutor(max_workers=1) for _ in range(2)]
    turn = [0]

    def step_elsewhere(it):
        turn[0] += 1
        return pools[turn[0] % 2].submit(next, it).result(timeout=30)
    for logger, stepper in ((None, next), (debug.Debug('all', printer=lambda m: None), next), (None, next),
                            (None, step_elsewhere), (debug.Debug('all', printer=lambda m: None), step_elsewhere)):
        debug.setLogger(logger)
        try:
            res = []
            decs = []
            for k in range(7):      # an odd number: with two workers taking steps in turn, a decoder's steps change threads
                s = streams.GrowingStream(seekable=(k % 2 == 0))
                s.feed(data[:-1])
                it = iter(codec.DEC['der'].StreamingDecoder(s, asn1Spec=t))
                decs.append((s, it))
            try:
                for s, it in decs:
                    x = stepper(it)
                    res.append('U' if isinstance(x, error.SubstrateUnderrunError) else 'V')
                for s, it in decs:
                    s.feed(data[-1:])
                    s.close_input()
                    x = stepper(it)
                    res.append('U' if isinstance(x, error.SubstrateUnderrunError) else bytes(codec.ENC['der'].encode(x)).hex())
            except Exception as e:  # noqa
                res.append('raises ' + type(e).__name__)
            outs.append(res)
        finally:
            debug.setLogger(None)
    rep.evaluations += 1
    rep.count('suspended-decoders-with-logging')
    for p_ in pools:
        p_.shutdown(wait=False)
    if not (outs[0] == outs[1] == outs[2]) or outs[0][-1] != data.hex():
        rep.fail('logging-changes-outcome', 'seven suspended streaming decoders resumed in turn: %s with logging off, %s with logging on, '
                 '%s off again' % (outs[0][-3:], outs[1][-3:], outs[2][-3:]), {'kind': 'logging-suspended-decoders', 'bytes': data.hex()})
    elif not (outs[3] == outs[0] and outs[4] == outs[0]):
        rep.fail('thread-changes-outcome' + ('-with-logging' if outs[3] == outs[0] else ''),
                 'seven suspended streaming decoders whose steps are taken by two worker threads in turn: %s with logging off, %s with '
                 'logging on; on one thread %s' % (outs[3][-3:], outs[4][-3:], outs[0][-3:]),
                 {'kind': 'suspended-decoders-across-threads', 'bytes': data.hex()})


def replay(path):
    d = json.load(open(path))
    print(json.dumps(d, indent=1)[:6000])
    return 0
