"""C02 — DER and CER round trip; canonical output accepted by every wider decoder (DESIGN §5 C02)."""
import json

from harness import common, gen, codec, engine, sigs

PAIRS = [('der', 'der'), ('der', 'cer'), ('der', 'ber'), ('cer', 'cer'), ('cer', 'ber')]
ENC_MODE = {'der': ('der', True, 0), 'cer': ('cer', False, 1000)}

CORPUS = [
    # time values under explicit tags and as members: the canonical encoders write them like every other string
    ("(tag e c 3 (str 24))", "(s 32303137303830313132303131325a)"),
    # one high tag number (long identifier form) met in both forms within one element: constructed for an explicit wrapper or
    # a segmented string, then primitive
    ("(seq (r (tag e c 40 int)) (r (seq (r (tag i c 40 int)))))", "(seq (i 5) (seq (i 7)))"),
    ("(seq (r (tag e p 1000 (str 4))) (r (tag i p 1000 bool)))", "(seq (s 6162) (b 1))"),
    ("(seqof (tag i a 40 (str 4)))", "(of (s %s) (s 616263))" % ('5a' * 1500)),
    ("(seqof (tag i a 40 (str 4)))", "(of (s 616263) (s %s))" % ('5a' * 1500)),
    ("(seq (r (tag e c 0 (str 23))) (r int))", "(seq (s 3137303830313132303131325a) (i 5))"),
    ("(set (r (tag e a 1 (str 24))) (r (tag i c 2 (str 23))))", "(seq (s 32303137303830313132303131325a) (s 3137303830313132303131325a))"),
    ("(set (r (tag i c 0 real)) (r enum))", "(seq (real -3 2 128) (i -32769))"),      # D13
    ("(seq (o (seqof (seqof int))))", "(seq (of (of)))"),                                 # E3 leak
    ("int", "(i -32768)"),                                                                 # E5
    ("(seq (r int) (d (of (i 1) (i 2)) (seqof int)))", "(seq (i 5) (of))"),                # DEFAULT of constructed type, empty value
    ("(seq (r int) (d (seq (i 9)) (tag i c 1 (seq (o int)))))", "(seq (i 5) (seq absent))"),
    ("(seq (d (ch 0 (i 1)) (choice (r int) (r (tag i c 1 int)))))", "(seq (ch 1 (i 1)))"),   # T14 CHOICE equality
    # ANY holding an encoding with nested indefinite lengths (what the CER encoder produces for constructed inner values):
    # the decoders hand the octets back unchanged, end-of-octets of the inner elements included
    ("(seq (r int) (r any))", "(seq (i 1) (any 30803080020105000000 00))".replace(' 00))', '00))')),
    ("(seq (r int) (r any))", "(seq (i 1) (any 3080240004016100000000))".replace('24000401610000', '2480040161' + '0000')),
    ("(tag e c 2 any)", "(any 30800201050000)"),
    ("(tag e c 2 any)", "(any 308030800201050000' + '0000)".replace("' + '", '')),
    ("(tag i c 2 any)", "(any 30800201050000)"),
    ("any", "(any 3080308002010500000000)"),
    ("(seq (r (tag e c 0 any)) (o (tag i c 1 any)))", "(seq (any 24800401610401620000) (any 30800000))"),
]


def mutate(rng, data):
    b = bytearray(data)
    if not b:
        return bytes(b)
    k = rng.randrange(6)
    i = rng.randrange(len(b))
    if k == 0:
        b[i] ^= 1 << rng.randrange(8)
    elif k == 1:
        b.insert(i, rng.randrange(256))
    elif k == 2:
        del b[i]
    elif k == 3:
        b[i] = rng.choice([0x00, 0x80, 0xff, 0x30, 0x31, 0x01, 0x04, 0x24])
    elif k == 4 and len(b) > 2:
        # definite -> indefinite on the outermost element when it is constructed and short
        if b[0] & 0x20 and b[1] < 0x80:
            b = bytearray(bytes(b[:1]) + b'\x80' + bytes(b[2:]) + b'\x00\x00')
    else:
        b[i] = (b[i] + 1) % 256
    return bytes(b)


def check_case(rep, drv, case, rng, pairs=PAIRS):
    encs = {}
    for e in ('der', 'cer'):
        if not any(p[0] == e for p in pairs):
            continue
        ie = engine.corr_encode(rep, drv, case, ENC_MODE[e])
        if ie[0] != 'ok':
            sig = engine.encode_refusal_region(case, ie) or ('encode-' + str(ie[1]))
            rep.fail(sig, '%s encoder refused/crashed on a valid value: %s' % (e.upper(), ie[1]),
                     dict(case.replay, kind='encode', enc=list(ENC_MODE[e])))
            continue
        encs[e] = ie[1]
        if rng is not None:
            # options a caller passes (codec-agnostic code hands the same options to every encoder) must not change
            # what a canonical encoder writes
            foreign = (e, rng.random() < 0.5, rng.choice([0, 1, 2, 3, 7, 999, 1000, 1001]))
            if (foreign[1], foreign[2]) == codec.NOMINAL[e]:
                foreign = (e, not foreign[1], 1)
            ie2 = engine.corr_encode(rep, drv, case, foreign)
            rep.count('foreign-options')
            if ie2[0] != 'ok' or ie2[1] != ie[1]:
                rep.fail('canonical-encoder-honours-caller-options',
                         '%s encoder given defMode=%s maxChunkSize=%d wrote %s instead of %s' % (
                             e.upper(), foreign[1], foreign[2], ie2[1].hex() if ie2[0] == 'ok' else ie2[1], ie[1].hex()),
                         dict(case.replay, kind='encode', enc=list(foreign)))
    for e, d in pairs:
        if e not in encs:
            continue
        idr, md = engine.corr_decode(rep, drv, case, d, encs[e])
        engine.roundtrip_verdict(rep, case, ENC_MODE[e], d, encs[e], idr)
        rep.count('pair=%s>%s' % (e, d))
    # agreement of the decoders on shared (mutated) inputs
    if rng is not None:
        for e in encs:
            for _ in range(3):
                data = mutate(rng, encs[e])
                res = {}
                for d in ('ber', 'cer', 'der'):
                    r = codec.impl_decode(d, case.t, data, case.schema)
                    if r[0] == 'ok':
                        res[d] = r
                rep.count('mutants')
                if len(res) >= 2:
                    rep.count('mutants-accepted-by>=2')
                    ks = sorted(res)
                    for a in ks[1:]:
                        if not gen.val_equiv(case.t, res[ks[0]][1], res[a][1]) or res[ks[0]][2] != res[a][2]:
                            rep.fail('decoders-disagree', '%s and %s decoders accept the same bytes with different results' % (ks[0], a),
                                     dict(case.replay, kind='agree', bytes=data.hex()))


def check_open_type_records(rep, rng, n):
    """records whose ANY field holds a typed value (open types): the canonical encoders write the wrapper and the inner value in
    their own codec, so DER output is read by the DER, CER and BER decoders and CER output by the CER and BER ones, with an empty
    remainder and the same inner value (resolved through the type map, or as the inner value's own encoding when not resolved)"""
    from harness.props import c18
    from harness import wire
    g0 = gen.Gen(rng, max_depth=1, allow_any=False)
    for _ in range(n):
        container = rng.choice(['seq', 'set'])
        id_kind = rng.choice(['int', 'oid'])
        tagging = rng.choice([None, ('i', rng.randrange(0, 5)), ('e', rng.randrange(0, 5))])
        if container == 'set' and tagging is None:
            tagging = (rng.choice('ie'), rng.randrange(0, 5))
        multi = rng.choice([None, None, 'seqof', 'setof'])
        key = rng.choice([0, 1, 300, -129]) if id_kind == 'int' else rng.choice([(1, 3, 6, 1), (2, 999, 3), (0, 0)])
        t = g0.ty(1)
        try:
            shape = c18.Shape(container, id_kind, tagging, multi, {key: t})
        except Exception:  # noqa
            continue
        count = 1 if not multi else rng.choice([1, 2, 3])
        inners = [g0.val(t) for _ in range(count)]
        rep.case('open type %s %s' % (shape.describe(), [gen.val_sexp(w) for w in inners]), nontrivial=True)
        rp = {'kind': 'opentype', 'shape': shape.describe(), 'id': str(key), 'inner_type': gen.ty_sexp(t),
              'inner_values': [gen.val_sexp(w) for w in inners]}
        for e in ('der', 'cer'):
            try:
                data = codec.ENC[e].encode(shape.build(key, inners, [t] * count))
                raws = [codec.ENC[e].encode(gen.build_value(t, w)) for w in inners]
            except Exception as ex:  # noqa
                from harness import sigs
                if isinstance(ex, OverflowError) and sigs.has_real_default(t):
                    rep.fail('T12-real-default-through-float', repr(ex), rp)
                elif codec.classify(ex) == 'liberr' and sigs.has_constructed_default(t):
                    rep.fail('T11-default-of-constructed-type', repr(ex), rp)
                else:
                    rep.fail('opentype-encode-' + codec.classify(ex), '%s encoder: %r' % (e.upper(), ex), dict(rp, enc=e))
                continue
            if e == 'cer' and any(wire.e1_applies(t, w) for w in inners):
                rep.count('skipped-stray-eoo-region')
                continue
            for e2, d in PAIRS:
                if e2 != e:
                    continue
                for resolve in (True, False):
                    rep.count('opentype-pair=%s>%s' % (e, d))
                    try:
                        res, rest = codec.DEC[d].decode(data, asn1Spec=shape.schema, **({'decodeOpenTypes': True} if resolve else {}))
                    except Exception as ex:  # noqa
                        rep.fail('opentype-%s-output-refused-by-%s' % (e, d), '%s output %s refused by the %s decoder: %r' % (
                            e.upper(), data.hex()[:120], d.upper(), ex), dict(rp, enc=e, dec=d, bytes=data.hex()))
                        continue
                    if rest != b'':
                        rep.fail('opentype-remainder', 'remainder %s' % rest.hex()[:60], dict(rp, enc=e, dec=d, bytes=data.hex()))
                        continue
                    try:
                        field = res['value']
                        items = [field[i] for i in range(len(field))] if multi else [field]
                        if resolve:
                            got = [gen.abstract(t, it) for it in items]
                            ok = len(got) == count and all(any(gen.val_equiv(t, a, w) for a in got) for w in inners) and (
                                multi == 'setof' or all(gen.val_equiv(t, a, w) for a, w in zip(got, inners)))
                        else:
                            got = [it.asOctets() for it in items]
                            ok = sorted(got) == sorted(raws) if multi == 'setof' else got == raws
                    except Exception as ex:  # noqa
                        ok, got = False, repr(ex)
                    if not ok:
                        rep.fail('opentype-%s>%s-value' % (e, d), 'inner values read back as %s' % (str(got)[:200],),
                                 dict(rp, enc=e, dec=d, bytes=data.hex(), resolve=resolve))


def run(rep, tier, seed):
    common.prove(rep)
    rng = common.rng_for(seed, 'C02')
    drv = common.Driver()
    # the segmentation loop of OctetStringEncoder.encodeValue (what CER's fixed 1000-octet chunk size drives) is translated from
    # the source on every run (gen/py2lean.py -> GenK.octetChunks) and run against the real method here
    from harness import kernels
    kernels.obligations(rep, ['octetChunks'])
    kernels.check(rep, drv, seed, 80 if tier == 'quick' else 3000, which=('octetChunks',))
    n = 1500 if tier == 'quick' else 40000
    rep.rule = ('generated (type, value) x (encoder, decoder) in {(DER,DER),(DER,CER),(DER,BER),(CER,CER),(CER,BER)}; strings longer '
                'than 1000 octets, SET/SET OF members of unequal length and shared prefixes, DEFAULT equal/unequal, explicitly tagged '
                'primitives; agreement of the three decoders on mutated encodings; records with an open type field holding typed inner values '
                '(SEQUENCE/SET x untagged/implicit/explicit ANY x single/SEQUENCE OF/SET OF) through the same five pairs, resolved and raw; '
                'non-trivial = depth>=1 or tagged')
    rep.assumptions = ['text codecs trusted', 'SET OF compared as multisets', 'decimal REAL excluded']
    from harness import sexp_types
    for ts, vs in CORPUS:
        t = sexp_types.ty_of_sexp(gen.parse_sexps(ts)[0])
        v = gen.val_of_sexp(gen.parse_sexps(vs)[0])
        case = engine.Case(t, v)
        rep.case('corpus ' + case.canon)
        if '(any 3080' in vs or '(any 2480' in vs:
            # the ANY holds an indefinite-length encoding: a value for the CER encoder only (inside DER output it would not be DER)
            check_case(rep, drv, case, None, pairs=[p for p in PAIRS if p[0] == 'cer'])
        else:
            check_case(rep, drv, case, None)
    # long strings (CER segments of 1000 octets), all string kinds incl. multi-octet character sets
    g = gen.Gen(rng)
    for kind in [4, 12, 22, 28, 30, 19]:
        for n_chars in ([999, 1000, 1001, 2500] if tier == 'quick' else [999, 1000, 1001, 1999, 2000, 2001, 2500, 5000]):
            t = ('str', kind)
            v = ('s', g.text_octets(kind, n_chars))
            if rng.random() < 0.5:
                t = ('tag', rng.choice('ei'), 'c', 3, t)
            case = engine.Case(t, v)
            rep.case(case.canon, nontrivial=True)
            rep.count('long-strings')
            check_case(rep, drv, case, None)
            if n_chars in (1001, 2500):
                # the segmented form under multi-octet identifiers (tag numbers >= 31), implicit and explicit
                for mode, cls, num in (('i', 'c', 31), ('i', 'a', 40), ('e', 'p', 16384), ('i', 'p', 2 ** 32)):
                    case = engine.Case(('tag', mode, cls, num, ('str', kind)), v)
                    rep.case(case.canon, nontrivial=True)
                    rep.count('long-strings-high-tags')
                    check_case(rep, drv, case, None)
    t = ('bits',)
    for nb in (7999, 8000, 8001, 8009, 20000):
        case = engine.Case(t, ('bits', ''.join(rng.choice('01') for _ in range(nb))))
        rep.case(case.canon, nontrivial=True)
        check_case(rep, drv, case, None)
    # long BIT STRINGs / strings with structure at the 1000-octet segment boundaries: all-zero segments in front,
    # in the middle and at the end, a single set bit just before / after a boundary
    shapes = []
    for nb in (8009, 16001):
        shapes += ['0' * nb, '0' * (nb - 1) + '1', '1' + '0' * (nb - 1), '0' * 8000 + '1' * (nb - 8000),
                   '0' * 7999 + '1' + '0' * (nb - 8000), '1' * 8000 + '0' * (nb - 8000)]
    for bits in shapes:
        for tt in (t, ('seq', [('r', None, ('int',)), ('r', None, ('tag', 'i', 'c', 0, ('bits',)))]),
                   ('seq', [('r', None, ('int',)), ('r', None, ('tag', 'i', 'p', 31, ('bits',)))])):
            v = ('bits', bits) if tt is t else ('seq', [('i', 5), ('bits', bits)])
            case = engine.Case(tt, v)
            rep.case(case.canon, nontrivial=True)
            rep.count('long-bits-structured')
            check_case(rep, drv, case, None)
    for kind in (4, 22):
        for body in (b'\x00' * 2001, b'\x00' * 1000 + b'\x01' * 1001, b'\x01' * 1000 + b'\x00' * 1001):
            case = engine.Case(('str', kind), ('s', body))
            rep.case(case.canon, nontrivial=True)
            rep.count('long-strings-structured')
            check_case(rep, drv, case, None)
    check_open_type_records(rep, rng, 120 if tier == 'quick' else 3000)
    for case in engine.gen_cases(rng, n, max_depth=3, allow_any=True):
        if not engine.representable(case):
            continue
        rep.case(case.canon, nontrivial=gen.nontrivial(case.t),
                 sample={'type': gen.ty_sexp(case.t)[:300], 'value': gen.val_sexp(case.v)[:300]})
        check_case(rep, drv, case, rng)

    def check_one(c, drv, case, r):
        e = r.get('enc', ['der', True, 0])[0]
        d = r.get('dec')
        check_case(c, drv, case, None, pairs=[(e, d)] if d else PAIRS)
    engine.post_shrink(rep, drv, check_one)
    drv.close()


def replay(path):
    d = json.load(open(path))
    print(json.dumps(d, indent=1)[:6000])
    return 0
