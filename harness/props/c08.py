"""C08 — malformed input fails cleanly: only library errors, always terminates (DESIGN §5 C08)."""
import io
import itertools
import json

from harness import common, gen, codec, engine, sexp_types
from pyasn1 import error
from pyasn1.type import base as pbase

ALPHABET = [0x00, 0x01, 0x02, 0x03, 0x04, 0x05, 0x06, 0x09, 0x0a, 0x0c, 0x1f, 0x23, 0x24, 0x30, 0x31, 0x3f,
            0x7f, 0x80, 0x81, 0x84, 0xa0, 0xa1, 0xbf, 0xff]

SPECS = [
    None, "bool", "int", "bits", "(str 4)", "(str 12)", "null", "oid", "real", "enum",
    "(seq (r int) (o (str 4)))", "(set (r int) (r bool))", "(seqof int)", "(setof (str 4))",
    "(choice (r int) (r (str 4)) (r (seqof bool)))", "(tag e c 0 int)", "(tag i c 1 (str 4))",
    "(seq (r (choice (r null) (r bits))) (d (i 5) (tag i c 0 int)))", "any",
    "(seq (r int) (r any))", "(set (o (tag e c 1 any)) (r oid))", "(choice (r any))",
]


class CountingBytesIO(io.BytesIO):
    def __init__(self, data):
        io.BytesIO.__init__(self, data)
        self.reads = 0

    def read(self, n=-1):
        self.reads += 1
        return io.BytesIO.read(self, n)


def is_value(obj):
    return isinstance(obj, pbase.Asn1Item) and obj is not pbase.noValue and bool(obj.isValue)


def deep_problem(obj, depth=0):
    """something inside a returned value that is not part of a value: the end-of-octets sentinel, None, a non-ASN.1 object,
    a valueless element of a SEQUENCE OF / SET OF (absent OPTIONAL slots of records are fine)"""
    from pyasn1.codec.ber import eoo
    from pyasn1.type import univ as _u
    if depth > 60:
        return None
    if obj is None or not isinstance(obj, pbase.Asn1Item):
        return 'holds %r' % (obj,)
    if isinstance(obj, eoo.EndOfOctets) or obj is eoo.endOfOctets:
        return 'holds the end-of-octets sentinel'
    try:
        if isinstance(obj, (_u.SequenceOf, _u.SetOf)):
            for i in range(len(obj)):
                c = obj.getComponentByPosition(i, default=None, instantiate=False)
                if c is None:
                    return 'element %d is not a value' % i
                p = deep_problem(c, depth + 1)
                if p:
                    return 'element %d %s' % (i, p)
        elif isinstance(obj, _u.Choice):
            if obj.isValue:
                return deep_problem(obj.getComponent(), depth + 1)
        elif isinstance(obj, (_u.Sequence, _u.Set)):
            for i in range(len(obj)):
                c = obj.getComponentByPosition(i, default=None, instantiate=False)
                if c is not None:
                    p = deep_problem(c, depth + 1)
                    if p:
                        return 'member %d %s' % (i, p)
    except error.PyAsn1Error:
        return None
    return None


def run_oneshot(dec, data, schema):
    s = CountingBytesIO(data)
    try:
        obj, rest = dec.decode(s, asn1Spec=schema)
        return ('ok', obj, rest, s.reads)
    except RecursionError:
        return ('err', 'leak:RecursionError', None, s.reads)
    except Exception as e:  # noqa
        return ('err', codec.classify(e), repr(e)[:200], s.reads)


def run_streaming(dec, data, schema, max_items=40):
    s = CountingBytesIO(data)
    out = []
    try:
        for obj in dec.StreamingDecoder(s, asn1Spec=schema):
            out.append(obj)
            if len(out) > max_items:
                return ('err', 'too-many-items', None, s.reads)
        return ('ok', out, None, s.reads)
    except RecursionError:
        return ('err', 'leak:RecursionError', None, s.reads)
    except Exception as e:  # noqa
        return ('err', codec.classify(e), repr(e)[:200], s.reads)


def judge(rep, where, spec_s, cdc, data, r):
    replay = {'kind': 'malformed', 'spec': spec_s, 'codec': cdc, 'bytes': data.hex(), 'where': where}
    n = len(data)
    if r[3] > 16 * n + 64:
        rep.fail('reads-not-linear', '%d stream reads for %d octets' % (r[3], n), replay)
    if r[0] == 'err':
        if r[1].startswith('leak') or r[1] == 'too-many-items':
            sig = '%s:%s' % (r[1], where)
            if r[2] and 'PostponedError' in r[2]:
                sig = 'T13-postponed-error-leak'
            rep.fail(sig, 'non-library exception %s' % (r[2],), replay)
        return
    objs = [r[1]] if where == 'oneshot' else r[1]
    for o in objs:
        if isinstance(o, error.SubstrateUnderrunError):
            continue
        if not is_value(o):
            rep.fail('not-a-value:' + where, 'decoder returned %r' % (o,), replay)
            return
        dp = deep_problem(o)
        if dp:
            rep.fail('not-a-value-inside:' + where, 'the returned value %s' % dp, replay)
            return


def check_input(rep, drv, data, specs, tier):
    for spec_s, t, schema in specs:
        for cdc in ('ber', 'cer', 'der'):
            dec = codec.DEC[cdc]
            r = run_oneshot(dec, data, schema)
            rep.count('oneshot=' + (r[0] if r[0] == 'ok' else r[1]))
            judge(rep, 'oneshot', spec_s, cdc, data, r)
            r2 = run_streaming(dec, data, schema)
            judge(rep, 'streaming', spec_s, cdc, data, r2)
            # model: whatever the X.690 reading accepts, the code accepts with the same value
            if t is not None and r[0] == 'ok' and False:
                pass
        if t is not None and gen.wf(t):
            md = codec.model_decode(drv, 'ber', t, data)
            rep.corr_checked += 1
            if md[0] == 'ok':
                idr = codec.impl_decode('ber', t, data, schema)
                if idr[0] == 'err' and idr[1] == 'liberr' and has_text(t):
                    rep.count('text-codec-rejects')      # character codecs are trusted, not modelled
                elif idr[0] != 'ok' or not gen.val_equiv(t, idr[1], md[1]) or idr[2] != md[2]:
                    rep.disagree('DEC-malformed', {'spec': spec_s, 'bytes': data.hex()},
                                 [gen.val_sexp(md[1]), md[2].hex()], repr(idr[:3])[:300])


def tlv(tagbyte, content):
    n = len(content)
    if n < 128:
        return bytes([tagbyte, n]) + content
    ln = n.to_bytes((n.bit_length() + 7) // 8, 'big')
    return bytes([tagbyte, 0x80 | len(ln)]) + ln + content


def check_large_scalars(rep, tier):
    """long contents of the numeric types (thousands of octets / digits), valid and cut short, against plain and
    constrained guiding types: Python's limits on huge numbers (int -> str beyond 4300 digits, float range) must not
    show through as non-library exceptions"""
    from pyasn1.type import univ, constraint, namedtype
    rng_int = univ.Integer().subtype(subtypeSpec=constraint.ValueRangeConstraint(0, 10))
    sv_int = univ.Integer().subtype(subtypeSpec=constraint.SingleValueConstraint(1, 2))
    un_int = univ.Integer().subtype(subtypeSpec=constraint.ConstraintsUnion(constraint.ValueRangeConstraint(0, 5),
                                                                             constraint.SingleValueConstraint(9)))
    from pyasn1.type import tag as _tag
    rec_absent = univ.Sequence(componentType=namedtype.NamedTypes(
        namedtype.OptionalNamedType('id', univ.Integer()),
        namedtype.OptionalNamedType('name', univ.Integer().subtype(implicitTag=_tag.Tag(_tag.tagClassContext, _tag.tagFormatSimple, 1))))
    ).subtype(subtypeSpec=constraint.WithComponentsConstraint(('id', constraint.ComponentPresentConstraint()),
                                                               ('name', constraint.ComponentAbsentConstraint())))
    enum = univ.Enumerated(namedValues=[('a', 1)]).subtype(subtypeSpec=constraint.SingleValueConstraint(1))
    seqof = univ.SequenceOf(componentType=rng_int)
    rec = univ.Sequence(componentType=namedtype.NamedTypes(namedtype.NamedType('n', rng_int),
                                                           namedtype.OptionalNamedType('r', univ.Real())))
    # constraints that are handed something other than an int whose repr() contains the huge number: the component mapping
    # of a SIZE-constrained container (isInconsistent), the arc tuple of a restricted OID
    sized_seqof = univ.SequenceOf(componentType=univ.Integer()).subtype(subtypeSpec=constraint.ValueSizeConstraint(1, 2))
    sized_setof = univ.SetOf(componentType=univ.Integer()).subtype(subtypeSpec=constraint.ValueSizeConstraint(1, 2))
    sized_rec = univ.Sequence(componentType=namedtype.NamedTypes(
        namedtype.NamedType('n', univ.Integer()), namedtype.OptionalNamedType('m', univ.Boolean()))
    ).subtype(subtypeSpec=constraint.ValueSizeConstraint(2, 2))
    sv_oid = univ.ObjectIdentifier().subtype(subtypeSpec=constraint.SingleValueConstraint((1, 2, 3)))
    sizes = (500, 1900, 3000) if tier == 'quick' else (200, 500, 1800, 1900, 2100, 3000, 5000, 20000)
    inputs = []
    for n in sizes:
        big = b'\x7f' + b'\xff' * n
        neg = b'\x80' + b'\x00' * n
        arc = b'\xff' * n + b'\x7f'
        inputs += [
            ('int+', tlv(0x02, big), [None, univ.Integer(), rng_int, sv_int, un_int]),
            ('absent-int', tlv(0x30, tlv(0x02, b'\x05') + tlv(0x81, big)), [rec_absent]),
            ('int-', tlv(0x02, neg), [None, rng_int]),
            ('enum', tlv(0x0a, big), [None, enum, univ.Enumerated()]),
            ('seqof-int', tlv(0x30, tlv(0x02, big)), [None, seqof]),
            ('rec-int', tlv(0x30, tlv(0x02, big)), [rec]),
            ('sized-seqof-3', tlv(0x30, tlv(0x02, b'\x05') + tlv(0x02, big) + tlv(0x02, b'\x07')), [sized_seqof]),
            ('sized-seqof-3-indef', b'\x30\x80' + tlv(0x02, big) * 3 + b'\x00\x00', [sized_seqof]),
            ('sized-setof-3', tlv(0x31, tlv(0x02, b'\x05') + tlv(0x02, b'\x07') + tlv(0x02, big)), [sized_setof]),
            ('sized-seqof-1', tlv(0x30, tlv(0x02, big)), [sized_seqof, sized_setof]),
            ('sized-rec-1', tlv(0x30, tlv(0x02, big)), [sized_rec]),
            ('sv-oid-huge-arc', tlv(0x06, b'\x2a' + arc + arc), [sv_oid]),
            ('oid-huge-arc', tlv(0x06, b'\x2a' + arc), [None, univ.ObjectIdentifier()]),
            ('oid-huge-arc-cut', tlv(0x06, b'\x2a' + arc + b'\x81'), [None, univ.ObjectIdentifier()]),
            ('oid-huge-arc-then-cut', tlv(0x06, b'\x2a' + arc + arc[:-1]), [None, univ.ObjectIdentifier()]),
            ('real-nr1-zeros', tlv(0x09, b'\x01' + b'1' + b'0' * n), [None, univ.Real()]),
            ('real-nr1-digits', tlv(0x09, b'\x01' + b'7' * n), [None, univ.Real()]),
            ('real-nr2', tlv(0x09, b'\x02' + b'1' * n + b'.' + b'5' * 20), [None, univ.Real()]),
            ('real-nr3', tlv(0x09, b'\x03' + b'1' * 20 + b'.E+' + b'9' * min(n, 400)), [None, univ.Real()]),
            ('real-bin-huge-exp', tlv(0x09, b'\x83' + bytes([min(n, 255)]) + b'\x7f' * min(n, 255) + b'\x01'), [None, univ.Real()]),
            ('real-bin-huge-mant', tlv(0x09, b'\x80\x01' + b'\xff' * n), [None, univ.Real()]),
            ('rec-real', tlv(0x30, tlv(0x02, b'\x05') + tlv(0x09, b'\x01' + b'1' + b'0' * n)), [rec]),
            ('bits-long', tlv(0x03, b'\x07' + b'\xff' * n), [None, univ.BitString()]),
            # identifiers with a tag number of thousands of digits: primitive, explicit wrapper, inside a record
            ('huge-tag-prim', b'\x9f' + arc + b'\x01\x05', [None, univ.Integer(), univ.Sequence()]),
            ('huge-tag-cons', b'\xbf' + arc + tlv(0x02, b'\x05')[:0] + bytes([3]) + tlv(0x02, b'\x05'), [None, univ.Integer(), rec]),
            ('huge-tag-empty-explicit', b'\xbf' + arc + b'\x00', [None, univ.Integer()]),
            ('huge-tag-in-record', tlv(0x30, b'\x9f' + arc + b'\x01\x05'), [None, rec, seqof]),
        ]
    # character-form REALs around the limits of the double format (largest finite, smallest normal, subnormal, underflow):
    # NR1 / NR2 / NR3 spellings, both signs
    for form, mk in ((3, lambda m, e: ('%sE%d' % (m, e)).encode()), (2, lambda m, e: None), (1, lambda m, e: None)):
        if form != 3:
            continue
        for e in (-400, -330, -325, -324, -323, -320, -310, -309, -308, -307, -300, -1, 0, 300, 307, 308, 309, 310, 400):
            for m in ('1', '5', '9.99', '-1', '-4.9', '0.001', '123456789012345678'):
                inputs.append(('real-nr3-%sE%d' % (m, e), tlv(0x09, b'\x03' + mk(m, e)), [None, univ.Real()]))
    for txt in ('0.' + '0' * 320 + '1', '-0.' + '0' * 310 + '49', '1' + '0' * 309 + '.5', '0.' + '0' * 400 + '7'):
        inputs.append(('real-nr2-long-%d' % len(txt), tlv(0x09, b'\x02' + txt.encode()), [None, univ.Real()]))
    # character-form REALs whose text is not an ISO 6093 number but something Python's float()/int() understand or choke on:
    # NaN / infinity spellings, underscores, blanks, hexadecimal, non-ASCII digits, empty and partial numbers; every form octet
    texts = [b'nan', b'NaN', b'-nan', b'+NAN', b' nan ', b'inf', b'-inf', b'+Infinity', b'INFINITY', b'1_0', b'1_0.5', b' 1', b'1 ',
             b'\t1\n', b'0x10', b'0b1', b'1e5', b'1E5', b'', b'+', b'-', b'.', b'e5', b'1e', b'1e+', b'1.5.2', b'--1', b'1,5',
             '\u0661\u0662'.encode('utf-8'), '\uff11\uff12'.encode('utf-8'), b'\xff\xfe', b'1\x00', b'nan(0x1)', b'1e400', b'-1e400',
             b'1' + b'0' * 400 + b'e-400', b'0e999999999999', b'1e999999999999', b'1e-999999999999']
    for fo in (1, 2, 3, 0, 4, 0x3f):
        for txt in texts:
            inputs.append(('real-text-fo%d-%r' % (fo, txt[:12]), tlv(0x09, bytes([fo]) + txt), [None, univ.Real()]))
            if fo == 3:
                inputs.append(('rec-real-text-%r' % (txt[:12],), tlv(0x30, tlv(0x02, b'\x05') + tlv(0x09, bytes([fo]) + txt)), [None, rec]))
    for name, data, schemas in inputs:
        for schema in schemas:
            spec_s = 'large:%s/%s' % (name, type(schema).__name__ if schema is not None else 'none')
            rep.case('large-scalar %s %d' % (spec_s, len(data)), nontrivial=True)
            rep.count('large-scalars')
            for cut in (None, len(data) - 1, len(data) // 2):
                d = data if cut is None else data[:cut]
                for cdc in ('ber', 'cer', 'der'):
                    dec = codec.DEC[cdc]
                    judge(rep, 'oneshot', spec_s, cdc, d, run_oneshot(dec, d, schema))
                    judge(rep, 'streaming', spec_s, cdc, d, run_streaming(dec, d, schema))


def check_flat_runs(rep, tier):
    """long FLAT inputs: thousands of small complete elements side by side (nesting depth 1 or 2 by their own lengths) - empty
    or too-short explicit tags, empty containers and strings. An element that claims fewer octets than the element inside it
    needs must be refused there and then: a decoder that reads the siblings as if they were nested runs out of stack
    (RecursionError) on an input no deeper than two"""
    from pyasn1.type import tag as _tag, univ, namedtype
    ex_int = univ.Integer().subtype(explicitTag=_tag.Tag(_tag.tagClassContext, _tag.tagFormatSimple, 0))
    ex_seq = univ.Sequence(componentType=namedtype.NamedTypes(namedtype.NamedType('a', ex_int)))
    pats = ['a000', 'a001', 'a002', 'a003a001', 'a00302', 'bf1f00', 'bf1f01', 'a100a000', '3000', '2400', '0400', '0500',
            'a0020500', 'a0030500', 'a0010500', '6000', 'e001', 'a080', '30800000',
            # definite-length containers and constructed strings that claim fewer octets than the element inside them needs
            '3001', '3101', '3002', '2401', '2301', '30033001', '3003a001', '31023001', '2c01', '30810130', 'a0023001', '3002a000']
    for pat in pats:
        unit = bytes.fromhex(pat)
        for count in ((700, 2000) if tier == 'quick' else (400, 700, 1000, 2000, 5000)):
            if pat == 'a080' and count > 150:
                count = 150           # genuinely nested (one level per repetition): kept below the fixed depth bound
            body = unit * count
            for wrap in ('bare', 'in-seq'):
                data = body if wrap == 'bare' else (b'\x30\x82' + len(body).to_bytes(2, 'big') + body if len(body) < 65536 else None)
                if data is None:
                    continue
                for schema in (None, ex_int, ex_seq):
                    spec_s = 'flat:%s*%d/%s/%s' % (pat, count, wrap, type(schema).__name__ if schema is not None else 'none')
                    rep.case('flat-run ' + spec_s, nontrivial=True)
                    rep.count('flat-runs')
                    for cdc in ('ber', 'cer', 'der'):
                        dec = codec.DEC[cdc]
                        judge(rep, 'oneshot', spec_s, cdc, data, run_oneshot(dec, data, schema))
                        judge(rep, 'streaming', spec_s, cdc, data, run_streaming(dec, data, schema, max_items=count + 10))


def has_text(t):
    k = t[0]
    if k == 'str':
        return t[1] != 4
    if k == 'tag':
        return has_text(t[4])
    if k in ('seqof', 'setof'):
        return has_text(t[1])
    if k in ('seq', 'set', 'choice'):
        return any(has_text(f[2]) for f in t[1])
    return False


def mutate(rng, data):
    b = bytearray(data)
    for _ in range(rng.choice([1, 1, 2, 3])):
        k = rng.randrange(8)
        i = rng.randrange(len(b)) if b else 0
        if k == 0 and b:
            b[i] ^= 1 << rng.randrange(8)
        elif k == 1:
            b.insert(i, rng.choice(ALPHABET))
        elif k == 2 and b:
            del b[i]
        elif k == 3 and b:
            b[i] = rng.choice(ALPHABET)
        elif k == 4:
            b[i:i] = b'\x84\xff\xff\xff\xff'
        elif k == 5:
            b[i:i] = bytes([0x80 | 40]) + b'\xff' * 40
        elif k == 6 and b:
            del b[rng.randrange(len(b)):]
        elif k == 7 and len(b) > 1:
            b[i] = 0x80
    return bytes(b)


def length_rewrites(data, limit=24):
    """framing damage that keeps every octet in place: the short-form length octet of one element made smaller or larger
    (a container that ends inside its last child, a child that runs past its container, a parent that claims the tail)"""
    from harness import wire
    try:
        root, end = wire.read_tlv(data)
    except Exception:  # noqa
        return
    out = 0
    for n, depth in wire.all_nodes(root):
        if n.get('indef') or n['hdr_end'] - n['start'] < 2:
            continue
        pos = n['hdr_end'] - 1
        ln = data[pos]
        if ln >= 0x80 or data[n['start']] & 0x1f == 0x1f:
            continue
        for delta in (-1, -2, -3, 1, 2, -ln):
            v = ln + delta
            if 0 <= v < 0x80 and v != ln:
                yield data[:pos] + bytes([v]) + data[pos + 1:]
                out += 1
                if out >= limit:
                    return


def run(rep, tier, seed):
    common.prove(rep)
    rng = common.rng_for(seed, 'C08')
    drv = common.Driver()
    # BIT STRING contents at the source level: the primitive branch of BitStringPayloadDecoder.valueDecoder and
    # BitString.fromOctetString are translated from the source on every run (GenK.bitsDecode / bitsFromOctets); Props/C08
    # source_bit_string_contents_fail_cleanly is a theorem about that translation, which is run against the real code here
    from harness import kernels
    kernels.obligations(rep, ['bitsFromOctets', 'bitsDecode', 'fromBytes', 'nullDecode'])
    kernels.check(rep, drv, seed, 300 if tier == 'quick' else 20000, which=('bitsDecode', 'nullDecode'))
    specs = []
    for s in SPECS:
        if s is None:
            specs.append((None, None, None))
        else:
            t = sexp_types.ty_of_sexp(gen.parse_sexps(s)[0])
            specs.append((s, t, gen.build(t)))
    rep.rule = ('exhaustive byte strings over a 24-octet structural alphabet (|b|<=2 quick plus a sample of |b|=3; |b|<=3 thorough) x '
                '%d guiding types (incl. none) x {BER,CER,DER} x {one-shot, streaming}; mutations of valid encodings (bit flips, '
                'insert/delete, tag/length rewrites, absurd lengths, truncation); non-trivial = |b|>=2; distinct by bytes' % len(specs))
    rep.assumptions = ['nesting depth of generated inputs is far below the Python recursion limit',
                       'step bound measured as stream read() calls <= 16|b|+64']
    rep.extra['exhaustive'] = False
    # corpus: witnesses of repaired leaks
    for h in ('3000', '30043000 3100'.replace(' ', ''), 'a0800000', '23800300 0000'.replace(' ', ''), '0428' + 'ff' * 40,
              '84ffffffff', '3180318000000000'[:12], '2480240604016104016204016300',
              '3001020105', '300230020500', 'a00530020201 05'.replace(' ', ''), '308030020201050000 0000'.replace(' ', ''),
              # tag and length octets rewritten to zero at a component boundary of a definite-length container (an
              # end-of-octets look-alike where none may stand)
              '30020000', '31020000', '30050201050000', '30050000020105', 'a00430020000', '3080300200000000', '310731050201050000',
              '30040000 0000'.replace(' ', ''), 'a0020000', '3006300200000500'):
        data = bytes.fromhex(h)
        rep.case('corpus ' + h)
        check_input(rep, drv, data, specs, tier)
    check_large_scalars(rep, tier)
    check_flat_runs(rep, tier)
    # exhaustive small inputs
    maxlen = 3 if tier == 'thorough' else 2
    for n in range(0, maxlen + 1):
        for tup in itertools.product(ALPHABET, repeat=n):
            data = bytes(tup)
            rep.case(data.hex(), nontrivial=n >= 2)
            check_input(rep, drv, data, specs, tier)
    if tier == 'quick':
        for _ in range(400):
            data = bytes(rng.choice(ALPHABET) for _ in range(3))
            rep.case(data.hex(), nontrivial=True)
            check_input(rep, drv, data, specs, tier)
    else:
        rep.extra['exhaustive'] = True
    # contents sweep per scalar type: every first content octet x short tails from a structural alphabet
    small = [0x00, 0x01, 0x02, 0x03, 0x7f, 0x80, 0x81, 0xff]
    utags = [1, 2, 3, 4, 5, 6, 9, 10, 12, 22, 30]
    firsts = range(256) if tier == 'thorough' else sorted(set(list(range(0, 256, 5)) + small + [0x83, 0xc3, 0x40, 0x41, 0x43, 0x0a, 0x2b]))
    sweep_specs = {1: 'bool', 2: 'int', 3: 'bits', 4: '(str 4)', 5: 'null', 6: 'oid', 9: 'real', 10: 'enum', 12: '(str 12)',
                   22: '(str 22)', 30: '(str 30)'}
    for ut in utags:
        st = sexp_types.ty_of_sexp(gen.parse_sexps(sweep_specs[ut])[0])
        sp = [(sweep_specs[ut], st, gen.build(st)), (None, None, None)]
        for f in firsts:
            for tail in itertools.chain([()], itertools.product(small, repeat=1), itertools.product(small[:6], repeat=2),
                                        (itertools.product(small[:4], repeat=3) if tier == 'thorough' else [])):
                content = bytes((f,) + tuple(tail))
                data = bytes([ut, len(content)]) + content
                rep.case(data.hex(), nontrivial=True)
                rep.count('content-sweep')
                check_input(rep, drv, data, sp, tier)
    # mutations of valid encodings, decoded with the own type, a neighbouring type and without type
    n = 400 if tier == 'quick' else 20000
    for case in engine.gen_cases(rng, n, max_depth=2, allow_any=True):
        mode = rng.choice([('ber', True, 0), ('ber', False, 0), ('ber', False, 2), ('cer', False, 1000), ('der', True, 0)])
        ie = codec.impl_encode(mode[0], case.t, case.v, mode[1], mode[2], obj=case.fresh_obj())
        if ie[0] != 'ok':
            continue
        own = [(gen.ty_sexp(case.t), case.t, case.schema), (None, None, None), rng.choice(specs)]
        for _ in range(3):
            data = mutate(rng, ie[1])
            rep.case(data.hex(), nontrivial=True, sample={'spec': gen.ty_sexp(case.t)[:200], 'bytes': data.hex()[:200]})
            check_input(rep, drv, data, own, tier)
        if len(ie[1]) <= 300:
            for data in length_rewrites(ie[1], 8 if tier == 'quick' else 24):
                rep.case(data.hex(), nontrivial=True)
                rep.count('length-rewrites')
                check_input(rep, drv, data, own, tier)
    drv.close()


def replay(path):
    d = json.load(open(path))
    print(json.dumps(d, indent=1)[:6000])
    return 0
