"""C19 — container objects refine their Python prototypes under any operation history (DESIGN §5 C19).

Three subjects are driven by the same history: the real pyasn1 object, a plain Python prototype
(list / dict over the declared keys / option) and the Lean model `Asn1.Container` (driver op HIST).
After every step the real object is compared
  * with the prototype (the property oracle): the call's result, len, isValue, abstract content,
    DER and CER against the encoding of a FRESH object built from the prototype's content; ill-formed
    ops must raise IndexError/KeyError/PyAsn1Error and change nothing; accessors must change nothing;
  * with the Lean model (correspondence): result, len, the raw private state, isValue, abstract
    content, DER, CER.
Plus: readers on values of arbitrary nested types (gen.Gen) change neither abstract content nor
BER/DER/CER; operations on schema scalars raise PyAsn1Error."""
import json
import math
import operator

from harness import common, gen, sigs, sexp_types, containers as C

from pyasn1.type import tag as ptag, constraint
from pyasn1 import error
from pyasn1.type import univ, char, useful, base, tag
from pyasn1.codec.ber import encoder as ber_encoder
from pyasn1.codec.der import encoder as der_encoder
from pyasn1.codec.cer import encoder as cer_encoder

# ----------------------------------------------------------------------------- kinds

REC_FIELDS = [
    [('r',), ('o',), ('d', 7)],
    [('o',), ('o',)],
    [('r',), ('r',)],
    [('d', 0), ('o',), ('r',), ('d', -1)],
    [('o',)],
    [('d', 5)],
]


def kinds():
    out = []
    for typed in (True, False):
        for is_set in (False, True):
            out.append(C.Kind('seqof', typed, is_set))
    for f in REC_FIELDS:
        out.append(C.Kind('rec', False, f))
        out.append(C.Kind('rec', True, f))
    out.append(C.Kind('rec', False, []))
    out.append(C.Kind('choice', 2))
    out.append(C.Kind('choice', 3))
    return out


def kind_of(head):
    sx = gen.parse_sexps(head)
    if sx[1] == 'seqof':
        return C.Kind('seqof', sx[2] == '1', sx[3] == '1')
    if sx[1] == 'rec':
        return C.Kind('rec', sx[2] == '1', [((f,) if isinstance(f, str) else ('d', int(f[1]))) for f in sx[3]])
    return C.Kind('choice', int(sx[2]))


# ----------------------------------------------------------------------------- op generation

VALS = [0, 1, 2, 3, 5, 7, -1, -3, 9, 127, 128, -129, 2 ** 40]


def rarg(r, p_bad=0.08):
    x = r.random()
    if x < p_bad:
        return ('bad',)
    z = r.choice(VALS[:9]) if r.random() < 0.85 else r.choice(VALS)
    return ('py', z) if x < 0.7 else ('obj', z)


def ridx(r, n):
    """a position around a container of length n: inside, N, negative, out of range on both sides"""
    x = r.random()
    if x < 0.45 and n:
        return r.randrange(n)
    if x < 0.6:
        return n
    if x < 0.75 and n:
        return -r.randrange(1, n + 1)
    if x < 0.88:
        return n + r.randrange(1, 4)
    return -n - r.randrange(1, 3)


def rslice(r, n):
    def b():
        x = r.random()
        if x < 0.3:
            return None
        return r.randrange(-n - 1, n + 2)
    return b(), b()


def gen_op(r, kind, proto):
    k = kind.kind
    if k == 'seqof':
        n = proto._n()
        x = r.random()
        if x < 0.45:
            m = r.choice(['setitem', 'setpos', 'setnone', 'append', 'append', 'extend', 'setslice', 'sort', 'reverse',
                          'clear', 'reset', 'clone', 'append'])
            if m in ('setitem', 'setpos'):
                return (m, ridx(r, n), rarg(r))
            if m == 'setnone':
                return (m, ridx(r, n))
            if m == 'append':
                return (m, rarg(r))
            if m == 'extend':
                return (m, [rarg(r, 0.04) for _ in range(r.randrange(0, 4))])
            if m == 'setslice':
                a, b = rslice(r, n)
                if r.random() < 0.6 and n:
                    a = r.randrange(0, n)
                    b = r.choice([None, n, r.randrange(a + 1, n + 1)])
                    cnt = len(range(n)[slice(a, b)])
                    return (m, a, b, [rarg(r, 0.04) for _ in range(cnt + (r.randrange(0, 3) if b in (None, n) else 0))])
                return (m, a, b, [rarg(r, 0.04) for _ in range(r.randrange(0, 4))])
            if m == 'clone':
                return (m, r.random() < 0.75)
            return (m,)
        m = r.choice(['len', 'iter', 'contains', 'getitem', 'getitem', 'getpos', 'getslice', 'count', 'index', 'pretty',
                      'eq', 'encode'])
        if m in ('contains', 'count', 'index'):
            return (m, r.choice(VALS[:9]))
        if m == 'getitem':
            return (m, ridx(r, n))
        if m == 'getpos':
            return (m, ridx(r, n), r.random() < 0.5)
        if m == 'getslice':
            a, b = rslice(r, n)
            return (m, a, b)
        if m == 'eq':
            if proto.l is not None and r.random() < 0.7:
                return (m, [x if x is not None else 0 for x in proto.l])
            return (m, [r.choice(VALS[:5]) for _ in range(r.randrange(0, 4))])
        return (m,)
    if k == 'rec':
        n = proto._nnames()
        x = r.random()
        if x < 0.45:
            m = r.choice(['setitem-pos', 'setitem-name', 'setitem-name', 'setpos', 'setname',
                          'settype' if kind.isSet else 'setname', 'setnone', 'clear', 'reset', 'clone'])
            if m in ('setitem-pos', 'setpos'):
                return (m, ridx(r, n), rarg(r))
            if m in ('setitem-name', 'setname', 'settype'):
                return (m, r.randrange(0, n + 2), rarg(r))
            if m == 'setnone':
                return (m, ridx(r, n))
            if m == 'clone':
                return (m, r.random() < 0.75)
            return (m,)
        m = r.choice(['len', 'keys', 'contains', 'getitem-pos', 'getitem-name', 'getpos', 'getname',
                      'gettype' if kind.isSet else 'getname', 'values', 'items', 'pretty', 'eq', 'encode'])
        if m == 'encode':
            return (m, kind.isSet)
        if m == 'contains':
            return (m, r.randrange(0, n + 2))
        if m == 'getitem-pos':
            return (m, ridx(r, n))
        if m == 'getitem-name':
            return (m, r.randrange(0, n + 2))
        if m == 'getpos':
            return (m, ridx(r, n), r.random() < 0.5)
        if m in ('getname', 'gettype'):
            return (m, r.randrange(0, n + 2), r.random() < 0.5)
        if m == 'eq':
            s = proto.s if proto.s else [None] * (kind.n if kind.n else 0)
            comps = ['hole' if v is None else ('v', v) for v in s]
            if r.random() < 0.25 and comps:
                j = r.randrange(len(comps))
                comps[j] = ('v', r.choice(VALS[:5])) if r.random() < 0.7 else 'hole'
            if not kind.n:
                # a record without declared fields cannot be built with a gap: the other side holds values only
                comps = [('v', 0) if c == 'hole' else c for c in comps]
            return (m, comps)
        return (m,)
    # choice
    n = kind.n
    x = r.random()
    if x < 0.45:
        m = r.choice(['setitem-pos', 'setitem-name', 'setitem-name', 'setpos', 'setname', 'settype', 'setnone',
                      'clear', 'reset', 'clone'])
        if m in ('setitem-pos', 'setpos'):
            return (m, ridx(r, n), rarg(r))
        if m in ('setitem-name', 'setname', 'settype'):
            return (m, r.randrange(0, n + 2), rarg(r))
        if m == 'setnone':
            return (m, ridx(r, n))
        if m == 'clone':
            return (m, r.random() < 0.75)
        return (m,)
    m = r.choice(['len', 'keys', 'contains', 'getitem-pos', 'getitem-name', 'getpos', 'getname', 'gettype', 'values',
                  'items', 'getcomponent', 'getchosenname', 'pretty', 'eq', 'encode'])
    if m == 'contains':
        return (m, r.randrange(0, n + 1))
    if m == 'getitem-pos':
        return (m, ridx(r, n))
    if m == 'getitem-name':
        return (m, r.randrange(0, n + 2))
    if m == 'getpos':
        return (m, ridx(r, n), r.random() < 0.5)
    if m in ('getname', 'gettype'):
        return (m, r.randrange(0, n + 2), r.random() < 0.5)
    if m == 'eq':
        if proto.sel is not None and proto.sel[1] is not None and r.random() < 0.6:
            return (m, proto.sel[0] if r.random() < 0.8 else r.randrange(n), proto.sel[1])
        return (m, r.randrange(n), r.choice(VALS[:5]))
    return (m,)


def gen_history(r, kind, length, wild):
    """ops drawn against the prototype's evolving state; `wild` also keeps ops the property says
    nothing about (sparse writes, list-incompatible slice assignments, …)"""
    proto = C.proto_for(kind)
    ops = []
    following = True
    for _ in range(length):
        for _try in range(20):
            op = gen_op(r, kind, proto)
            if not following:
                break
            cls = proto.classify(op)
            if cls != 'unspec' or wild:
                break
        else:
            continue
        ops.append(op)
        if following:
            try:
                res = proto.apply(op)
                del res
            except C.Unspecified:
                following = False
    return ops


# ----------------------------------------------------------------------------- one history

OBS = ('len', 'state', 'isValue', 'abs', 'der', 'cer')


def fresh_enc(codec, proto):
    v = proto.enc_value()
    if v is None:
        return 'err'
    try:
        return gen.hexs(codec.encode(gen.build_value(proto.ty(), v)))
    except Exception:  # noqa
        return 'err'


def t5_region(kind, proto, op):
    """finding T5: reading beyond position N of a SEQUENCE OF/SET OF with a component type"""
    if kind.kind != 'seqof' or not kind.typed or op[0] not in ('getitem', 'getpos'):
        return False
    if op[0] == 'getpos' and not op[2]:
        return False
    return op[1] > proto._n()


def run_history(rep, drv, kind, ops, follow=True, corr=True):
    """replays `ops`; records failures (property) and disagreements (model) on `rep`.
    returns the number of steps the prototype could follow."""
    replay = {'kind': kind.head(), 'ops': [C.op_sexp(o) for o in ops]}
    real = C.Real(kind)
    proto = C.proto_for(kind)
    lean = C.lean_run(drv, kind, ops) if corr else None
    followed = 0
    for i, op in enumerate(ops):
        step = dict(replay, step=i, op=C.op_sexp(op))
        before = real.observe()
        ber_before = real.ber()
        out = real.apply(op)
        after = real.observe()
        ber_after = real.ber()
        opname = op[0]
        if corr:
            rep.corr_checked += 1
            if (out,) + after != lean[i]:
                rep.disagree('HIST', step, list(lean[i]), [out] + list(after))
        if out.startswith('leak:'):
            rep.fail('leak-%s-%s' % (out[5:], opname), 'a container operation raised a non-library exception: %s on %s' % (out, C.op_sexp(op)), step)
            return followed
        if kind.kind == 'choice':
            cv = real.obj._componentValues
            if cv is not base.noValue and sum(1 for x in cv if x is not base.noValue) > 1:
                rep.fail('choice-more-than-one', 'a CHOICE object holds more than one alternative', step)
        if not follow:
            continue
        try:
            cls = proto.classify(op)
        except C.Unspecified:
            cls = 'unspec'
        if cls == 'unspec':
            if getattr(proto, 'unspec_reason', '') == 'empty slice target' and opname == 'setslice':
                # a slice that selects no position of a non-empty container: the library may refuse it (lookup / library
                # error, nothing changed) or do what a list does (insert the values: the length grows by their number);
                # overwriting members elsewhere is neither
                if out in ('lookup', 'lib', 'value'):
                    if after != before:
                        rep.fail('refused-op-changed-state-setslice', 'refused %s changed %s -> %s' % (C.op_sexp(op), before, after), step)
                        return followed
                elif before[0].isdigit() and after[0].isdigit() and int(after[0]) != int(before[0]) + len(op[3]):
                    rep.fail('empty-slice-assignment-overwrites', '%s on %s members: accepted, length %s -> %s (a list inserts %d values; '
                             'a refusal changes nothing)' % (C.op_sexp(op), before[0], before[0], after[0], len(op[3])), step)
                    return followed
        if cls == 'unspec':
            follow = False
            continue
        need = C.reader_obligations(kind, proto, op)
        if cls == 'ill':
            if out not in ('lookup', 'lib', 'value') or after != before:
                if t5_region(kind, proto, op):
                    rep.fail('T5-seqof-read-beyond-end-grows',
                             'reading position %d of a %d-element SEQUENCE OF instantiated the gap: len %s -> %s, isValue %s -> %s'
                             % (op[1], proto._n(), before[0], after[0], before[2], after[2]), step)
                elif out not in ('lookup', 'lib', 'value'):
                    rep.fail('illformed-accepted-' + opname, 'ill-formed %s returned %s' % (C.op_sexp(op), out), step)
                else:
                    rep.fail('illformed-changed-state-' + opname, 'ill-formed %s raised but changed %s -> %s' % (C.op_sexp(op), before, after), step)
                return followed
            followed += 1
            continue
        pout = proto.apply(op)
        followed += 1
        if out != pout:
            if opname == 'eq' and kind.kind == 'rec' and out == 'lib':
                rep.fail('T4-eq-raises-on-absent-or-placeholder',
                         '== between records raised PyAsn1Error where the dict model answers %s (state %s)' % (pout, before[1]), step)
            elif out in ('lookup', 'lib', 'value'):
                rep.fail('wf-refused-' + opname, 'well-formed %s raised %s (prototype: %s)' % (C.op_sexp(op), out, pout), step)
                return followed
            else:
                rep.fail('out-differs-' + opname, '%s returned %s, prototype %s' % (C.op_sexp(op), out, pout), step)
                return followed
        want = {'len': proto.len_str(), 'isValue': '1' if proto.is_value() else '0',
                'abs': 'none' if proto.abs() is None else gen.val_sexp(proto.abs()),
                'der': fresh_enc(der_encoder, proto), 'cer': fresh_enc(cer_encoder, proto)}
        got = dict(zip(OBS, after))
        for key in ('len', 'isValue', 'abs', 'der', 'cer'):
            if got[key] != want[key]:
                rep.fail('state-differs-%s-%s' % (opname, key),
                         'after %s: %s is %s, prototype %s' % (C.op_sexp(op), key, got[key], want[key]), step)
                return followed
        if need:
            b = dict(zip(OBS, before), ber=ber_before)
            a = dict(zip(OBS, after), ber=ber_after)
            for key in sorted(need):
                if a[key] != b[key]:
                    rep.fail('read-changes-%s-%s' % (key, opname),
                             'accessor %s changed %s: %s -> %s' % (C.op_sexp(op), key, b[key], a[key]), step)
                    return followed
    return followed


# ----------------------------------------------------------------------------- readers on arbitrary values

def nested_objects(t, obj, path=()):
    """(type, object, path) of the value and of every constructed component that is present"""
    b = gen.base_of(t)
    yield t, obj, path
    k = b[0]
    # an object that is not of the kind its type says (a defect the callers report by its effects) is not descended into
    kinds = {'seq': univ.Sequence, 'set': univ.Set, 'seqof': univ.SequenceOf, 'setof': univ.SetOf, 'choice': univ.Choice}
    if k in kinds and not isinstance(obj, kinds[k]):
        return
    if k == 'choice' and not obj.isValue:
        return
    if k in ('seq', 'set'):
        for i, (kind, dflt, ft) in enumerate(b[1]):
            c = obj.getComponentByPosition(i, default=None, instantiate=False)
            if c is not None and c is not base.noValue and c.isValue and gen.base_of(ft)[0] in ('seq', 'set', 'seqof', 'setof', 'choice'):
                for x in nested_objects(ft, c, path + (i,)):
                    yield x
    elif k in ('seqof', 'setof'):
        if gen.base_of(b[1])[0] in ('seq', 'set', 'seqof', 'setof', 'choice'):
            for i in range(len(obj)):
                for x in nested_objects(b[1], obj.getComponentByPosition(i, instantiate=False), path + (i,)):
                    yield x
    elif k == 'choice':
        idx = int(obj.getName()[1:])
        ft = b[1][idx][2]
        if gen.base_of(ft)[0] in ('seq', 'set', 'seqof', 'setof', 'choice'):
            for x in nested_objects(ft, obj.getComponent(), path + (idx,)):
                yield x


def reader_calls(t, obj):
    """(name, thunk) read-only uses of a constructed value object"""
    k = gen.base_of(t)[0]
    calls = [('len', lambda: len(obj)), ('iter', lambda: list(obj)), ('prettyPrint', lambda: obj.prettyPrint()),
             ('str', lambda: str(obj)), ('repr', lambda: repr(obj)), ('isValue', lambda: obj.isValue),
             ('der', lambda: der_encoder.encode(obj)), ('cer', lambda: cer_encoder.encode(obj)),
             ('ber', lambda: ber_encoder.encode(obj)), ('ber-indef', lambda: ber_encoder.encode(obj, defMode=False)),
             ('clone', lambda: obj.clone(cloneValueFlag=True)), ('eq-self', lambda: obj == obj),
             ('isInconsistent', lambda: obj.isInconsistent),
             # deriving other objects from this one (result thrown away) is a read-only use of it as well
             ('clone-retagged', lambda: obj.clone(tagSet=ptag.TagSet((), ptag.Tag(ptag.tagClassContext, ptag.tagFormatConstructed, 29)))),
             ('clone-reconstrained', lambda: obj.clone(subtypeSpec=constraint.ConstraintsIntersection(constraint.ValueSizeConstraint(0, 99)))),
             ('subtype-explicit', lambda: obj.subtype(explicitTag=ptag.Tag(ptag.tagClassPrivate, ptag.tagFormatConstructed, 28))),
             ('subtype-implicit', lambda: obj.subtype(implicitTag=ptag.Tag(ptag.tagClassApplication, ptag.tagFormatConstructed, 27)))]
    if k in ('seq', 'set'):
        calls += [('values', lambda: list(obj.values())), ('items', lambda: list(obj.items())),
                  ('keys', lambda: list(obj.keys()))]
        for i in range(len(gen.base_of(t)[1])):
            calls.append(('getitem-name-%d' % i, lambda i=i: obj['f%d' % i]))
            calls.append(('getitem-pos-%d' % i, lambda i=i: obj[i]))
            calls.append(('in-%d' % i, lambda i=i: ('f%d' % i) in obj))
            calls.append(('get-noinst-%d' % i, lambda i=i: obj.getComponentByPosition(i, instantiate=False)))
    elif k in ('seqof', 'setof'):
        for i in range(len(obj)):
            calls.append(('getitem-%d' % i, lambda i=i: obj[i]))
        calls += [('slice', lambda: obj[:]), ('get-noinst-N', lambda: obj.getComponentByPosition(len(obj), instantiate=False))]
    elif k == 'choice':
        calls += [('values', lambda: list(obj.values())), ('items', lambda: list(obj.items())), ('keys', lambda: list(obj.keys())),
                  ('getComponent', lambda: obj.getComponent()), ('getName', lambda: obj.getName()),
                  ('getitem-current', lambda: obj[obj.getName()])]
    return calls


def snapshot(t, obj):
    def enc(f):
        try:
            return f().hex()
        except Exception as e:  # noqa
            return 'err:' + type(e).__name__
    try:
        a = gen.val_sexp(gen.abstract(t, obj))
    except Exception as e:  # noqa
        a = 'err:' + type(e).__name__
    return {'abs': a, 'ber': enc(lambda: ber_encoder.encode(obj)), 'der': enc(lambda: der_encoder.encode(obj)),
            'cer': enc(lambda: cer_encoder.encode(obj))}


def contains_real(t):
    b = gen.base_of(t)
    if b[0] == 'real':
        return True
    if b[0] in ('seq', 'set', 'choice'):
        return any(contains_real(f[2]) for f in b[1])
    if b[0] in ('seqof', 'setof'):
        return contains_real(b[1])
    return False


def default_mentions_real(t):
    """T12 region: some DEFAULT member's type holds a REAL (compared with the value through float())"""
    b = gen.base_of(t)
    if b[0] in ('seq', 'set', 'choice'):
        return any((f[0] == 'd' and contains_real(f[2])) or default_mentions_real(f[2]) for f in b[1])
    if b[0] in ('seqof', 'setof'):
        return default_mentions_real(b[1])
    return False


def readers_case(rep, r, t, v, label):
    """every read-only use, at every level of the value, leaves abstract content and encodings alone"""
    if gen.base_of(t)[0] not in ('seq', 'set', 'seqof', 'setof', 'choice'):
        return
    replay = {'kind': 'readers', 'type': gen.ty_sexp(t), 'value': gen.val_sexp(v)}
    try:
        obj = gen.build_value(t, v)
    except Exception:  # noqa
        return
    base_snap = snapshot(t, obj)
    subs = list(nested_objects(t, obj))
    order = []
    for st, so, path in subs:
        for name, f in reader_calls(st, so):
            order.append((path, name, f))
    r.shuffle(order)
    for path, name, f in order[:40]:
        try:
            f()
        except error.PyAsn1Error:
            pass
        except (IndexError, KeyError):
            pass
        except Exception as e:  # noqa
            sig = 'leak-%s-%s' % (type(e).__name__, name.split('-')[0])
            if isinstance(e, OverflowError) and default_mentions_real(t):
                sig = 'T12-real-default-through-float'
            elif isinstance(e, OverflowError) and contains_real(t) and name.startswith('eq'):
                sig = 'T12-real-compared-through-float'
            rep.fail(sig, 'read-only use %s at %s raised %s: %s' % (name, list(path), type(e).__name__, e),
                     dict(replay, reader=name, path=list(path)))
            return
        now = snapshot(t, obj)
        for key in ('abs', 'ber', 'der', 'cer'):
            if now[key] != base_snap[key]:
                sig = 'read-changes-%s-%s' % (key, name.split('-')[0])
                if key != 'abs' and sigs.has_constructed_default(t):
                    # the encoder's `component == default` raises on the placeholder the read created, or
                    # answers False once the read allocated the slots ([] vs [placeholder]) (T11 + T4)
                    sig = 'T11-default-of-constructed-type'
                rep.fail(sig, '%s at %s changed %s: %s -> %s' % (name, list(path), key, base_snap[key][:120], now[key][:120]),
                         dict(replay, reader=name, path=list(path)))
                return
    rep.corr_checked += 0


def mutate_nested(r, t, obj):
    """change some nested constructed component of `obj` in place; returns a description or None"""
    subs = [(st, so, path) for st, so, path in nested_objects(t, obj) if path]
    r.shuffle(subs)
    for st, so, path in subs:
        k = gen.base_of(st)[0]
        try:
            if k in ('seqof', 'setof'):
                if len(so):
                    so.clear()
                    return 'clear() at %s' % list(path)
                so.append(gen.build_value(gen.base_of(st)[1], gen.Gen(r, max_depth=1).val(gen.base_of(st)[1])))
                return 'append() at %s' % list(path)
            if k in ('seq', 'set'):
                if so._componentValues:
                    so.clear()
                    return 'clear() at %s' % list(path)
            if k == 'choice':
                so.clear()
                return 'clear() at %s' % list(path)
        except Exception:  # noqa
            continue
    return None


def clone_case(rep, r, t, v):
    """clone(cloneValueFlag=True) has the content of the original and shares nothing mutable with it"""
    if gen.base_of(t)[0] not in ('seq', 'set', 'seqof', 'setof', 'choice'):
        return
    replay = {'kind': 'clone', 'type': gen.ty_sexp(t), 'value': gen.val_sexp(v)}
    try:
        obj = gen.build_value(t, v)
    except Exception:  # noqa
        return
    s0 = snapshot(t, obj)
    if s0['abs'].startswith('err'):
        return
    try:
        c = obj.clone(cloneValueFlag=True)
    except Exception as e:  # noqa
        rep.fail('clone-' + type(e).__name__, 'clone(cloneValueFlag=True) raised %s: %s' % (type(e).__name__, e), replay)
        return
    sc = snapshot(t, c)
    for key in ('abs', 'ber', 'der', 'cer'):
        if sc[key] != s0[key]:
            sig = 'clone-differs-' + key
            if key != 'abs' and sigs.has_constructed_default(t):
                sig = 'T11-default-of-constructed-type'
            rep.fail(sig, 'the clone differs in %s: %s vs %s' % (key, sc[key][:120], s0[key][:120]), replay)
            return
    for which in ('clone', 'original'):
        o2 = gen.build_value(t, v)
        c2 = o2.clone(cloneValueFlag=True)
        victim, other = (c2, o2) if which == 'clone' else (o2, c2)
        so = snapshot(t, other)
        what = mutate_nested(r, t, victim)
        if what is None:
            return
        now = snapshot(t, other)
        for key in ('abs', 'ber', 'der', 'cer'):
            if now[key] != so[key]:
                rep.fail('clone-shares-components', 'changing the %s (%s) changed the other object: %s %s -> %s' % (
                    which, what, key, so[key][:120], now[key][:120]), dict(replay, mutated=which, how=what))
                return


# ----------------------------------------------------------------------------- schema scalars

SCALAR_CLASSES = [univ.Integer, univ.Boolean, univ.Enumerated, univ.BitString, univ.OctetString, univ.Null,
                  univ.ObjectIdentifier, univ.Real, univ.Any, char.UTF8String, char.IA5String, char.BMPString,
                  char.PrintableString, useful.GeneralizedTime, useful.UTCTime, useful.ObjectDescriptor]

SAMPLE = {univ.Integer: 5, univ.Boolean: 1, univ.Enumerated: 2, univ.BitString: '1011', univ.OctetString: b'ab',
          univ.Null: '', univ.ObjectIdentifier: (1, 3, 6), univ.Real: (5, 2, 1), univ.Any: b'\x02\x01\x05',
          char.UTF8String: 'ab', char.IA5String: 'ab', char.BMPString: 'ab', char.PrintableString: 'ab',
          useful.GeneralizedTime: '20170801120112Z', useful.UTCTime: '170801120112Z', useful.ObjectDescriptor: 'ab'}

SCALAR_OPS = [
    ('int', int), ('float', float), ('index', operator.index), ('abs', abs), ('neg', operator.neg), ('pos', operator.pos),
    ('invert', operator.invert), ('round', round), ('floor', math.floor), ('ceil', math.ceil), ('trunc', math.trunc),
    ('add', lambda x: x + 1), ('radd', lambda x: 1 + x), ('sub', lambda x: x - 1), ('rsub', lambda x: 1 - x),
    ('mul', lambda x: x * 2), ('rmul', lambda x: 2 * x), ('mod', lambda x: x % 2), ('rmod', lambda x: 2 % x),
    ('pow', lambda x: x ** 2), ('rpow', lambda x: 2 ** x), ('floordiv', lambda x: x // 2), ('rfloordiv', lambda x: 2 // x),
    ('truediv', lambda x: x / 2), ('rtruediv', lambda x: 2 / x), ('divmod', lambda x: divmod(x, 2)),
    ('lshift', lambda x: x << 1), ('rshift', lambda x: x >> 1), ('and', lambda x: x & 1), ('or', lambda x: x | 1),
    ('xor', lambda x: x ^ 1), ('eq', lambda x: x == 1), ('ne', lambda x: x != 1), ('lt', lambda x: x < 1),
    ('le', lambda x: x <= 1), ('gt', lambda x: x > 1), ('ge', lambda x: x >= 1),
    ('eq-bytes', lambda x: x == b'a'), ('lt-bytes', lambda x: x < b'a'), ('add-bytes', lambda x: x + b'a'),
    ('radd-bytes', lambda x: b'a' + x), ('add-tuple', lambda x: x + (1,)), ('eq-tuple', lambda x: x == (1, 3)),
    ('len', len), ('iter', lambda x: list(x)), ('getitem', lambda x: x[0]), ('contains', lambda x: 1 in x),
    ('reversed', lambda x: list(reversed(x))), ('hash', hash), ('bool', bool), ('str', str), ('bytes', bytes),
    ('prettyPrint', lambda x: x.prettyPrint()), ('asOctets', lambda x: x.asOctets()), ('asNumbers', lambda x: x.asNumbers()),
    ('asBinary', lambda x: x.asBinary()), ('asInteger', lambda x: x.asInteger()), ('asTuple', lambda x: x.asTuple()),
    ('asDateTime', lambda x: x.asDateTime), ('isPlusInf', lambda x: x.isPlusInf), ('isMinusInf', lambda x: x.isMinusInf),
    ('der', lambda x: der_encoder.encode(x)), ('ber', lambda x: ber_encoder.encode(x)),
]


def check_nested_collections(rep, rng, n):
    """collections whose elements are themselves containers (SEQUENCE OF SEQUENCE OF INTEGER, SET OF SEQUENCE OF, SEQUENCE OF
    record, SEQUENCE OF CHOICE), several value objects of ONE schema object driven by interleaved histories: each equals its own
    list-of-lists model after every step (appending by reading one past the end, filling what the read handed out, extend,
    clear, clone), the others and the schema's element type do not move"""
    def mk(elem):
        return univ.SequenceOf(componentType=elem)
    elems = {
        'seqof-int': lambda: univ.SequenceOf(componentType=univ.Integer()),
        'setof-int': lambda: univ.SetOf(componentType=univ.Integer()),
        'seqof-seqof-int': lambda: univ.SequenceOf(componentType=univ.SequenceOf(componentType=univ.Integer())),
    }
    for name in sorted(elems):
        for rnd in range(n):
            schema = mk(elems[name]())
            objs = [schema.clone(), schema.clone(), schema.clone()]
            models = [[], [], []]
            steps = []
            for step in range(rng.randrange(3, 12)):
                k = rng.randrange(3)
                o, m = objs[k], models[k]
                op = rng.choice(['read-append', 'read-append', 'append-built', 'fill-last', 'clear', 'clone-over'])
                deep = name == 'seqof-seqof-int'
                x = rng.randrange(100)
                steps.append((k, op, x))
                try:
                    if op == 'read-append':
                        row = o[len(o)]                     # the accessor creates the element one past the end
                        if deep:
                            inner = row[len(row)]
                            inner.append(x)
                            m.append([[x]])
                        else:
                            row.append(x)
                            m.append([x])
                    elif op == 'append-built':
                        row = schema.componentType.clone()
                        if deep:
                            inner = schema.componentType.componentType.clone()
                            inner.append(x)
                            row.append(inner)
                            m.append([[x]])
                        else:
                            row.append(x)
                            m.append([x])
                        o.append(row)
                    elif op == 'fill-last' and m:
                        if deep:
                            o[len(o) - 1][0].append(x)
                            m[-1][0].append(x)
                        else:
                            o[len(o) - 1].append(x)
                            m[-1].append(x)
                    elif op == 'clear':
                        o.clear()
                        del m[:]
                    elif op == 'clone-over':
                        objs[k] = o.clone(cloneValueFlag=True)
                except error.PyAsn1Error as e:
                    rep.fail('nested-collection-refused-' + op, '%s on a %s: %s' % (op, name, e), {'kind': 'nested-collections', 'elem': name, 'steps': steps})
                    break
                rep.evaluations += 1
                rep.count('nested-collections')

                def content(obj):
                    if deep:
                        return [[[int(z) for z in inner] for inner in row] for row in obj]
                    rows = [[int(z) for z in row] for row in obj]
                    return rows
                bad = None
                for j in range(3):
                    got = content(objs[j])
                    want = models[j] if not name.startswith('setof') else models[j]
                    if name.startswith('setof'):
                        got, want = [sorted(r_) for r_ in got], [sorted(r_) for r_ in want]
                    if got != want:
                        bad = 'object %d holds %s, its list model %s' % (j, got, want)
                        break
                if bad is None and (schema.componentType.isValue or len(schema.componentType) != 0 or schema.isValue):
                    bad = 'the element type of the schema now holds %s' % (schema.componentType.prettyPrint()[:80],)
                if bad:
                    rep.fail('nested-collection-shares-state', '%s after %s' % (bad, steps[-4:]), {'kind': 'nested-collections', 'elem': name, 'steps': steps})
                    break


def schema_scalar_checks(rep):
    """every operation a value object of the class supports must raise PyAsn1Error on the schema object"""
    for cls in SCALAR_CLASSES:
        value = cls(SAMPLE[cls])
        schema = cls()
        if cls is univ.Null or schema.isValue:
            continue        # no schema state: the class has a default payload
        for name, f in SCALAR_OPS:
            try:
                f(value)
            except Exception:  # noqa
                continue        # not an operation of this class at all
            canon = 'schema-scalar %s %s' % (cls.__name__, name)
            rep.case(canon, nontrivial=True)
            rep.count('schema-scalar')
            replay = {'kind': 'schema-scalar', 'class': cls.__name__, 'op': name}
            try:
                res = f(schema)
            except error.PyAsn1Error:
                continue
            except Exception as e:  # noqa
                rep.fail('schema-scalar-leak-%s-%s' % (type(e).__name__, name),
                         '%s() %s raised %s: %s' % (cls.__name__, name, type(e).__name__, e), replay)
                continue
            if res is base.noValue:
                # handing out the internal placeholder is not failing: the caller holds an object that prints, compares by
                # identity and travels on (casts, the native encoder) as if it were the payload
                rep.fail('schema-scalar-returns-the-noValue-sentinel-' + name, '%s() %s returned the noValue sentinel instead of raising' % (
                    cls.__name__, name), replay)
                continue
            rep.fail('schema-scalar-returns-data-' + name, '%s() %s returned %r' % (cls.__name__, name, res), replay)
    # comparisons between two objects: a schema object against another schema object (same class, a distinct instance;
    # another class), against a value object, either side; membership tests that compare
    pair_ops = [('eq', lambda a, b: a == b), ('ne', lambda a, b: a != b), ('lt', lambda a, b: a < b), ('le', lambda a, b: a <= b),
                ('gt', lambda a, b: a > b), ('ge', lambda a, b: a >= b), ('in-list', lambda a, b: a in [b]),
                ('list-count', lambda a, b: [b].count(a)), ('list-index', lambda a, b: [b].index(a)),
                ('in-tuple', lambda a, b: a in (b,))]
    for cls in SCALAR_CLASSES:
        schema = cls()
        if schema.isValue:
            continue
        others = [('same-class-schema', cls()), ('value', cls(SAMPLE[cls])),
                  ('other-class-schema', (univ.OctetString if cls is not univ.OctetString else univ.Integer)()),
                  ('derived-schema', cls().subtype(implicitTag=tag.Tag(tag.tagClassContext, tag.tagFormatSimple, 1)))]
        for oname, other in others:
            for name, f in pair_ops:
                for flipped in (False, True):
                    a, b = (other, schema) if flipped else (schema, other)
                    canon = 'schema-scalar-pair %s %s %s %s' % (cls.__name__, oname, name, flipped)
                    rep.case(canon, nontrivial=True)
                    rep.count('schema-scalar-pairs')
                    replay = {'kind': 'schema-scalar-pair', 'class': cls.__name__, 'other': oname, 'op': name, 'flipped': flipped}
                    try:
                        res = f(a, b)
                    except error.PyAsn1Error:
                        continue
                    except ValueError as e:
                        if name == 'list-index' and 'not in list' in str(e):
                            res = 'not-in-list'
                        else:
                            rep.fail('schema-scalar-leak-ValueError-' + name, '%s: %s' % (canon, e), replay)
                            continue
                    except Exception as e:  # noqa
                        rep.fail('schema-scalar-leak-%s-%s' % (type(e).__name__, name), '%s raised %s: %s' % (canon, type(e).__name__, e), replay)
                        continue
                    rep.fail('schema-scalar-returns-data-' + name, '%s returned %r' % (canon, res), replay)
    # the plug table itself: every dunder NoValue is meant to plug raises
    nv = base.noValue
    for typ in (str, int, list, dict):
        for name in dir(typ):
            if name in type(nv).skipMethods or not (name.startswith('__') and name.endswith('__')) or not callable(getattr(typ, name)):
                continue
            rep.case('novalue ' + name, nontrivial=False)
            try:
                getattr(nv, name)()
            except error.PyAsn1Error:
                continue
            except Exception as e:  # noqa
                rep.fail('novalue-plug-leak-' + name, 'noValue.%s() raised %s' % (name, type(e).__name__), {'kind': 'novalue', 'op': name})
                continue
            rep.fail('novalue-plug-missing-' + name, 'noValue.%s() returned' % name, {'kind': 'novalue', 'op': name})


# ----------------------------------------------------------------------------- corpus

CORPUS = [
    # minimized witnesses of the repaired defects (run first)
    ('HIST seqof 1 0', '(extend (py 1) (py 2) (py 3)) (reverse) (iter)'),                     # T1 reverse()
    ('HIST seqof 0 1', '(append (obj 2)) (append (obj 1)) (reverse)'),
    ('HIST choice 2', '(keys) (values) (items) (len)'),                                      # T2 iter(emptyChoice)
    ('HIST choice 2', '(setitem-name 0 (py 1)) (reset) (len) (keys) (encode) (setitem-name 1 (py 2))'),   # Choice.reset
    ('HIST seqof 1 0', '(clone 1) (len) (append (py 1))'),                                   # clone of a schema SEQUENCE OF
    ('HIST seqof 1 0', '(clear) (clone 1) (len)'),                                           # clone keeps value status
    ('HIST seqof 0 1', '(clear) (clone 1) (append (obj 4))'),
    ('HIST rec 0 ()', '(clear) (clone 1) (len)'),
    ('HIST rec 0 (o o)', '(reset) (clone 1) (keys)'),
    ('HIST choice 2', '(setitem-pos 1 (py 5)) (setitem-pos -1 (py 7)) (len) (encode)'),      # negative CHOICE position
    ('HIST choice 3', '(setitem-name 0 (py 5)) (setpos -1 (obj 7)) (getcomponent)'),
    ('HIST seqof 1 0', '(extend (py 1) (py 2) (py 3)) (getitem 5)'),                          # T5 (known finding)
    ('HIST rec 0 (r o (d 7))', '(setitem-name 0 (py 1)) (values) (eq (v 1) hole hole)'),      # T4 == after read (known finding)
    # a record without declared component type grown past ten fields (the auto-generated names field-10, field-11 sort
    # before field-2 as text): names, values and items stay in position order
    ('HIST rec 0 ()', ' '.join('(setpos %d (obj %d))' % (i, i) for i in range(12)) + ' (keys) (values) (items) (len) (encode)'),
    ('HIST rec 0 ()', ' '.join('(setpos %d (obj %d))' % (i, 20 - i) for i in range(13)) + ' (keys) (items) (clone 1) (keys) (encode)'),
    # slices that select no position of a non-empty collection (the list idiom for extend, an inverted range): refused with
    # nothing changed, or the values inserted - never written over members elsewhere
    ('HIST seqof 1 0', '(extend (py 5) (py 6) (py 7)) (setslice 3 _ (py 9)) (len) (iter) (encode)'),
    ('HIST seqof 1 0', '(extend (py 5) (py 6) (py 7)) (setslice 2 1 (py 9)) (len) (iter)'),
    ('HIST seqof 1 1', '(extend (py 5) (py 6)) (setslice 4 _ (py 1) (py 2)) (len) (iter)'),
    ('HIST seqof 0 0', '(append (obj 1)) (setslice 1 _ (obj 2)) (setslice 5 9 (obj 3)) (len)'),
    # a record without declared components grown past 256 members (the interpreter shares small ints up to 256: positions
    # beyond compare equal without being the same object)
    ('HIST rec 0 ()', ' '.join('(setpos %d (obj %d))' % (i, i % 7) for i in range(260)) + ' (len) (keys) (encode) (clone 1) (len)'),
    # positions filled back to front (the store's insertion order differs from the position order), then whole-container ops
    ('HIST seqof 1 0', '(setpos 2 (py 30)) (setpos 1 (py 20)) (setpos 0 (py 10)) (reverse) (iter) (encode)'),
    ('HIST seqof 0 1', '(setpos 2 (obj 3)) (setpos 1 (obj 2)) (setpos 0 (obj 1)) (reverse) (iter) (encode)'),
    ('HIST seqof 1 0', '(setpos 2 (py 30)) (setpos 0 (py 10)) (setpos 1 (py 20)) (clone 1) (reverse) (iter) (append (py 5)) (encode)'),
    ('HIST seqof 1 0', '(setpos 1 (py 20)) (setpos 0 (py 10)) (sort) (iter) (count 10) (index 20) (encode)'),
    ('HIST seqof 1 0', '(setpos 2 (py 1)) (setpos 1 (py 2)) (setpos 0 (py 3)) (iter) (getslice 0 2) (contains 2) (eq 3 2 1)'),
]

READER_CORPUS = [
    # T4a: values() made an absent OPTIONAL record without mandatory members present
    ('(seq (r int) (o (seq (o int))))', '(seq (i 1) absent)'),
    ('(set (r (tag i c 0 int)) (o (tag i c 1 (set (o int) (d (i 3) (tag i c 5 int))))))', '(seq (i 1) absent)'),
    # clone(cloneValueFlag=True) after a read touched an absent OPTIONAL SEQUENCE OF
    ('(seq (r int) (o (seqof int)))', '(seq (i 1) absent)'),
    ('(seq (r int) (o (setof (seq (o int)))) (o (choice (r int) (r bool))))', '(seq (i 1) absent absent)'),
]


CLONE_CORPUS = [
    ('(seq (r int) (r (seqof int)) (o (seq (r bool))))', '(seq (i 1) (of (i 2) (i 3)) (seq (b 1)))'),
    ('(seqof (set (r (tag i c 0 int)) (o (tag i c 1 (seqof null)))))', '(of (seq (i 1) (of null)) (seq (i 2) absent))'),
    ('(choice (r (tag i c 0 int)) (r (tag e c 1 (seqof (seq (r int))))))', '(ch 1 (of (seq (i 5))))'),
]


def parse_ops(s, kind):
    return [op_of_sexp(x, kind) for x in gen.parse_sexps(s)]


def _arg(x):
    return ('bad',) if x == 'bad' else (x[0], int(x[1]))


def _oi(x):
    return None if x == '_' else int(x)


def op_of_sexp(x, kind):
    k = x[0]
    if k in ('setitem', 'setpos', 'setitem-pos', 'setitem-name', 'setname', 'settype'):
        return (k, int(x[1]), _arg(x[2]))
    if k == 'append':
        return (k, _arg(x[1]))
    if k == 'extend':
        return (k, [_arg(a) for a in x[1:]])
    if k == 'setslice':
        return (k, _oi(x[1]), _oi(x[2]), [_arg(a) for a in x[3:]])
    if k == 'getslice':
        return (k, _oi(x[1]), _oi(x[2]))
    if k in ('getpos', 'getname', 'gettype'):
        return (k, int(x[1]), x[2] == '1')
    if k == 'clone':
        return (k, x[1] == '1')
    if k == 'eq':
        if kind.kind == 'choice':
            return (k, int(x[1]), int(x[2]))
        if kind.kind == 'seqof':
            return (k, [int(i) for i in x[1:]])
        return (k, ['hole' if i == 'hole' else ('v', int(i[1])) for i in x[1:]])
    if len(x) == 1:
        return (k,)
    return (k, int(x[1]))


# ----------------------------------------------------------------------------- shrinking

def shrink_history(drv, kind, ops, sig, follow):
    """greedy deletion of ops while the same failure signature (or a disagreement) persists"""
    def bad(o):
        col = Collector()
        try:
            run_history(col, drv, kind, o, follow=follow)
        except Exception:  # noqa
            return False
        if sig == 'HIST':
            return bool(col.corr_disagreements)
        return any(f['signature'] == sig for f in col.failures)
    cur = list(ops)
    changed = True
    budget = 300
    while changed and budget > 0:
        changed = False
        for i in range(len(cur)):
            budget -= 1
            cand = cur[:i] + cur[i + 1:]
            if cand and bad(cand):
                cur = cand
                changed = True
                break
    return cur


class Collector(object):
    def __init__(self):
        self.failures = []
        self.corr_disagreements = []
        self.corr_checked = 0

    def fail(self, signature, what, replay):
        self.failures.append({'signature': signature, 'what': what, 'replay': replay})

    def disagree(self, op, case, model, impl):
        self.corr_disagreements.append({'op': op, 'case': case, 'model': model, 'impl': impl})

    def count(self, *a, **k):
        pass

    def case(self, *a, **k):
        pass


def post_shrink(rep, drv):
    seen = set()
    for f in rep.failures:
        r = f['replay']
        if r.get('kind', '').startswith('HIST') and f['signature'] not in seen and len(seen) < 4:
            seen.add(f['signature'])
            kind = kind_of(r['kind'])
            ops = parse_ops(' '.join(r['ops']), kind)
            small = shrink_history(drv, kind, ops[:r['step'] + 1], f['signature'], True)
            f['minimized'] = {'kind': r['kind'], 'ops': [C.op_sexp(o) for o in small]}
    n = 0
    for d in rep.corr_disagreements:
        r = d['case']
        if isinstance(r, dict) and r.get('kind', '').startswith('HIST') and n < 3:
            n += 1
            kind = kind_of(r['kind'])
            ops = parse_ops(' '.join(r['ops']), kind)
            small = shrink_history(drv, kind, ops[:r['step'] + 1], 'HIST', False)
            d['minimized'] = {'kind': r['kind'], 'ops': [C.op_sexp(o) for o in small]}


# ----------------------------------------------------------------------------- entry points

def check_reads_constrained(rep):
    """read-only uses of a record that carries a WITH COMPONENTS constraint do not change whether - and to what - it
    encodes: the absent members stay absent for the constraint whatever placeholders the reads leave behind"""
    from pyasn1.type import univ as U, namedtype as NT, constraint as CN
    from pyasn1.codec.ber import encoder as ber_enc
    from pyasn1.codec.der import encoder as der_enc
    from pyasn1.codec.native import encoder as nat_enc

    def mk(cls):
        t = cls(componentType=NT.NamedTypes(NT.NamedType('a', U.Integer()), NT.OptionalNamedType('b', U.OctetString()),
                                            NT.OptionalNamedType('c', U.SequenceOf(componentType=U.Integer())),
                                            NT.DefaultedNamedType('d', U.Boolean(False))),
                subtypeSpec=CN.WithComponentsConstraint(('a', CN.ComponentPresentConstraint()), ('b', CN.ComponentAbsentConstraint()),
                                                        ('c', CN.ComponentAbsentConstraint())))
        v = t.clone()
        v['a'] = 1
        return v
    readers = [('getitem-name', lambda v: v['b']), ('getitem-name-constructed', lambda v: v['c']), ('getitem-pos', lambda v: v[1]),
               ('values', lambda v: list(v.values())), ('items', lambda v: list(v.items())), ('keys', lambda v: list(v.keys())),
               ('contains', lambda v: 'b' in v), ('prettyPrint', lambda v: v.prettyPrint()), ('native', lambda v: nat_enc.encode(v)),
               ('clone', lambda v: v.clone(cloneValueFlag=True)), ('default-member', lambda v: v['d']), ('eq', lambda v: v == v),
               ('getComponentByName', lambda v: v.getComponentByName('b')), ('iter', lambda v: list(v))]
    for cls in (U.Sequence, U.Set):
        for name, rd in readers:
            v = mk(cls)
            rep.evaluations += 1
            rep.count('reads-constrained')
            case = {'kind': 'reads-constrained', 'container': cls.__name__, 'reader': name}
            before = (bytes(ber_enc.encode(v)).hex(), bytes(der_enc.encode(v)).hex())
            try:
                rd(v)
            except Exception:  # noqa
                pass
            try:
                after = (bytes(ber_enc.encode(v)).hex(), bytes(der_enc.encode(v)).hex())
            except Exception as e:  # noqa
                after = 'ERR ' + type(e).__name__
            if after != before:
                rep.fail('read-changes-encoding-constrained', 'after the read-only use %s the record encodes as %s, before as %s'
                         % (name, after, before), case)


def check_reassign_plain(rep):
    """a record slot behaves like a dict entry: what it held before does not decide what a later plain-value assignment
    stores. First an ASN.1 object the slot accepts but that is not exactly of the declared type (a more constrained
    subtype, another text encoding, a typed value in an ANY slot), then a Python value: the record reads and encodes as
    one that was given the Python value only."""
    from pyasn1.type import univ as U, namedtype as NT, constraint as CN, char as CH
    from pyasn1.codec.der import encoder as der_enc

    def schema(cls):
        return cls(componentType=NT.NamedTypes(NT.NamedType('n', U.Integer()), NT.NamedType('s', U.OctetString()),
                                               NT.NamedType('u', CH.UTF8String()), NT.OptionalNamedType('a', U.Any())))
    firsts = {
        'n': [('constrained-subtype', lambda: U.Integer().subtype(subtypeSpec=CN.ValueRangeConstraint(0, 9)).clone(7))],
        's': [('other-encoding', lambda: U.OctetString('x', encoding='utf-8')),
              ('size-constrained', lambda: U.OctetString().subtype(subtypeSpec=CN.ValueSizeConstraint(0, 2)).clone('ab'))],
        'u': [('size-constrained', lambda: CH.UTF8String().subtype(subtypeSpec=CN.ValueSizeConstraint(0, 2)).clone('ab'))],
    }
    seconds = {'n': 100, 's': u'\xe9\xe9\xe9', 'u': u'h\xe9llo'}
    for cls in (U.Sequence, U.Set):
        for field, lst in firsts.items():
            for fname, first in lst:
                for how in ('name', 'pos', 'setComponentByName'):
                    rep.evaluations += 1
                    rep.count('reassign-plain')
                    case = {'kind': 'reassign-plain', 'container': cls.__name__, 'field': field, 'first': fname, 'how': how}
                    idx = {'n': 0, 's': 1, 'u': 2}[field]

                    def fill(o, skip=None):
                        for f, v in (('n', 1), ('s', 'q'), ('u', 'w')):
                            if f != skip:
                                o[f] = v
                    try:
                        a = schema(cls).clone()
                        fill(a, field)
                        a[field] = first()
                        if how == 'name':
                            a[field] = seconds[field]
                        elif how == 'pos':
                            a[idx] = seconds[field]
                        else:
                            a.setComponentByName(field, seconds[field])
                        got = bytes(der_enc.encode(a)).hex()
                    except Exception as e:  # noqa
                        got = 'ERR %s' % type(e).__name__
                    b = schema(cls).clone()
                    fill(b, field)
                    b[field] = seconds[field]
                    want = bytes(der_enc.encode(b)).hex()
                    if got != want:
                        rep.fail('slot-history-decides-assignment', 'after holding a %s object, assigning the Python value %r to %s gives %s; '
                                 'a fresh record gives %s' % (fname, seconds[field], field, got, want), case)


def check_nested_choice_by_type(rep, rng, n):
    """tag-addressed assignment reaches a leaf through any depth of untagged CHOICE alternatives (innerFlag=True): a CHOICE of
    CHOICEs refines a one-entry dict whose key path is the unique path to the leaf with that tag. After every assignment: the
    selected names at every level, exactly one alternative per level, the leaf, isValue, getName/getComponent(innerFlag=True)
    and the DER octets (an untagged CHOICE encodes as its leaf) against a model kept in plain Python."""
    from pyasn1.type import univ as U, namedtype as NT, char as CH
    from pyasn1.codec.der import encoder as der_enc

    def choice(*fields):
        return U.Choice(componentType=NT.NamedTypes(*[NT.NamedType(nm, ty) for nm, ty in fields]))
    leaves = {'i': (U.Integer, [0, 5, -2, 300]), 'b': (U.Boolean, [True, False]), 'o': (U.OctetString, [b'', b'x', b'yz']),
              'n': (U.Null, [b'']), 'u': (CH.UTF8String, [u'', u'h\xe9'])}

    def build(depth):
        # depth levels of untagged CHOICE; leaf types spread over the levels: level k holds one leaf and (below the
        # last level) the next CHOICE; returns (schema, {leafkey: path})
        order = ['o', 'u', 'b', 'n']
        paths = {}

        def level(k, prefix):
            fields = [('l%d' % k, leaves[order[k]][0]())]
            paths[order[k]] = prefix + ('l%d' % k,)
            if k + 1 < depth:
                fields.append(('c%d' % k, level(k + 1, prefix + ('c%d' % k,))))
            else:
                fields.append(('i%d' % k, U.Integer()))
                paths['i'] = prefix + ('i%d' % k,)
            return choice(*fields)
        return level(0, ()), paths

    def observe(obj):
        path, lvl = [], obj
        while isinstance(lvl, U.Choice):
            names = list(lvl)
            if len(lvl) != 1 or len(names) != 1:
                return tuple(path), None, 'level %r holds %d alternatives %r' % (tuple(path), len(lvl), names)
            path.append(names[0])
            lvl = lvl.getComponent()
        return tuple(path), lvl, None
    for depth in (1, 2, 3, 4):
        schema, paths = build(depth)
        for run in range(n):
            rep.evaluations += 1
            rep.count('nested-choice-by-type')
            rep.count('nested-choice depth %d' % depth)
            obj = schema.clone()
            hist = []
            for step in range(rng.randrange(1, 7)):
                key = rng.choice(sorted(paths))
                cls, vals = leaves[key]
                v = rng.choice(vals)
                as_obj = rng.random() < 0.4
                hist.append((key, repr(v), as_obj))
                case = {'kind': 'nested-choice-by-type', 'depth': depth, 'history': hist}
                want_der = bytes(der_enc.encode(cls(v))).hex()
                try:
                    obj.setComponentByType(cls.tagSet, cls(v) if as_obj else v, innerFlag=True)
                    path, leaf, problem = observe(obj)
                    if problem:
                        rep.fail('choice-more-than-one', problem, case)
                        break
                    got = (path, type(leaf).__name__, obj.isValue, obj.getName(innerFlag=True),
                           bytes(der_enc.encode(obj.getComponent(innerFlag=True))).hex(), bytes(der_enc.encode(obj)).hex(),
                           bytes(der_enc.encode(obj.getComponentByType(cls.tagSet, innerFlag=True))).hex())
                except Exception as e:  # noqa
                    got = 'ERR %s: %s' % (type(e).__name__, str(e)[:80])
                want = (paths[key], cls.__name__, True, paths[key][-1], want_der, want_der, want_der)
                if got != want:
                    rep.fail('tag-addressed-assignment', 'setComponentByType(%s.tagSet, %r, innerFlag=True) on a CHOICE nested %d deep after %r: '
                             'object reads %r, the one-entry model %r' % (cls.__name__, v, depth, hist[:-1], got, want), case)
                    break


def check_undeclared_collection_copies(rep):
    """a SEQUENCE OF / SET OF created without a declared component type takes whatever it is given (the schemaless decoders build
    such objects): its copy by value - clone / subtype with cloneValueFlag, one and two levels - has the same length, content,
    value status and encoding as the list of what was put in, whether the elements are scalars, collections or records, and is
    independent of the original"""
    from pyasn1.type import univ as U, namedtype as NT
    from pyasn1.codec.der import encoder as der_enc
    ints = U.SequenceOf(componentType=U.Integer())
    rec = U.Sequence(componentType=NT.NamedTypes(NT.NamedType('a', U.Integer()), NT.OptionalNamedType('b', U.OctetString())))

    def mk_ints(*xs):
        o = ints.clone()
        o.extend(xs)
        return o

    def mk_rec(a, b=None):
        o = rec.clone()
        o['a'] = a
        if b is not None:
            o['b'] = b
        return o
    fills = {
        'scalars': lambda: [U.Integer(1), U.Integer(2)],
        'collections': lambda: [mk_ints(1, 2), mk_ints(7, 8), mk_ints()],
        'records': lambda: [mk_rec(1), mk_rec(2, b'x')],
        'mixed': lambda: [mk_ints(4), mk_rec(9, b'yz'), U.Integer(5)],
        'nested-undeclared': lambda: [(lambda o: (o.append(mk_ints(4)), o)[1])(U.SequenceOf()), mk_ints(1)],
    }
    copies = {'clone': lambda o: o.clone(cloneValueFlag=True), 'subtype': lambda o: o.subtype(cloneValueFlag=True),
              'clone-of-clone': lambda o: o.clone(cloneValueFlag=True).clone(cloneValueFlag=True)}
    for cls in (U.SequenceOf, U.SetOf):
        for fname, fill in sorted(fills.items()):
            for cname, cp in sorted(copies.items()):
                rep.evaluations += 1
                rep.count('undeclared-collection-copies')
                case = {'kind': 'undeclared-collection-copy', 'container': cls.__name__, 'elements': fname, 'copy': cname}
                try:
                    src = cls()
                    for el in fill():
                        src.append(el)
                    want = (len(src), src.isValue, bytes(der_enc.encode(src)).hex())
                    dup = cp(src)
                    got = (len(dup), dup.isValue, bytes(der_enc.encode(dup)).hex())
                    same = (dup == src)
                    # independence: emptying the copy leaves the original alone
                    dup.clear()
                    after = (len(src), src.isValue, bytes(der_enc.encode(src)).hex())
                except Exception as e:  # noqa
                    rep.fail('undeclared-copy-' + type(e).__name__, '%s() holding %s, %s: %r' % (cls.__name__, fname, cname, e), case)
                    continue
                if got != want or not same:
                    rep.fail('copy-by-value-differs', '%s() holding %s: the %s reads (len, isValue, DER) = %r, == original: %s; the original %r' % (
                        cls.__name__, fname, cname, got, same, want), case)
                elif after != want:
                    rep.fail('copy-shares-state', '%s() holding %s: clearing the %s changed the original to %r' % (cls.__name__, fname, cname, after), case)


def check_sort_variants(rep, rng, n):
    """sort(key=..., reverse=...) behaves as the list method of the same name does (a stable sort, also when reversed):
    SEQUENCE OF / SET OF of INTEGER against a Python list of the same integers, keys with many ties"""
    from pyasn1.type import univ as U
    keys = [('abs', lambda x: abs(int(x))), ('mod3', lambda x: int(x) % 3), ('const', lambda x: 0), ('neg', lambda x: -int(x)),
            ('none', None)]
    for _ in range(n):
        vals = [rng.choice([-3, -2, -1, 0, 1, 2, 3, 5, -5, 7]) for _ in range(rng.randrange(0, 9))]
        kname, kf = rng.choice(keys)
        rev = rng.random() < 0.5
        cls = rng.choice([U.SequenceOf, U.SetOf])
        o = cls(componentType=U.Integer())
        o.extend(vals)
        model = list(vals)
        case = {'kind': 'sort-variant', 'container': cls.__name__, 'values': vals, 'key': kname, 'reverse': rev}
        rep.evaluations += 1
        rep.count('sort-variants')
        try:
            if kf is None:
                o.sort(reverse=rev)
                model.sort(reverse=rev)
            else:
                o.sort(key=kf, reverse=rev)
                model.sort(key=kf, reverse=rev)
            got = [int(x) for x in o]
        except Exception as e:  # noqa
            if vals:
                rep.fail('sort-variant-raises:' + type(e).__name__, 'sort(key=%s, reverse=%s) raised %r' % (kname, rev, e), case)
            continue
        if got != model:
            rep.fail('sort-variant-differs', 'sort(key=%s, reverse=%s) of %r gives %r, a list gives %r' % (kname, rev, vals, got, model), case)


def run(rep, tier, seed):
    common.prove(rep)
    rng = common.rng_for(seed, 'C19')
    drv = common.Driver()
    quick = tier == 'quick'
    # how SEQUENCE OF / SET OF objects read an index is translated from the source on every run (GenK.seqOfGetIdx / seqOfSetIdx;
    # Props/C19 source_index_normalisation_is_model: = the list model's normIdx) and compared with the real objects here
    from harness import kernels
    kernels.obligations(rep, ['seqOfGetIdx', 'seqOfSetIdx'])
    kernels.check(rep, drv, seed, 120 if quick else 4000, which=('seqOfIdx',))
    n_hist = 6000 if quick else 90000
    max_len = 15 if quick else 50
    n_wild = 1500 if quick else 22000
    n_readers = 1500 if quick else 22000
    rep.rule = ('operation histories (length <= %d) over SEQUENCE OF/SET OF with and without componentType, SEQUENCE/SET '
                'with required/OPTIONAL/DEFAULT fields and without componentType (dynamic names), CHOICE with 2-3 '
                'alternatives; arguments drawn around the current length (inside, N, negative, out of range), names '
                'known/unknown, values int / ASN.1 object / invalid; non-trivial = at least one mutator and one accessor; '
                'distinct by canonical (kind, history). Plus readers on values of arbitrary nested types and the '
                'schema-scalar operator table.' % max_len)
    rep.assumptions = ['element universe of the histories: INTEGER components (the property is about the containers); '
                       'nested component types are covered by the readers oracle only',
                       'ops the property says nothing about (sparse writes beyond N, slice assignments a list would '
                       'resize, an invalid value after valid ones in extend/slice) are only run in the model-vs-code '
                       'correspondence stream',
                       'a schema SEQUENCE OF/SET OF is encoded like the empty one by the library (documented leniency)']
    check_sort_variants(rep, common.rng_for(seed, 'C19', 'sort'), 400 if quick else 20000)
    check_reads_constrained(rep)
    check_reassign_plain(rep)
    check_undeclared_collection_copies(rep)
    check_nested_choice_by_type(rep, common.rng_for(seed, 'C19', 'choice-by-type'), 40 if quick else 2000)
    rep.case('nested collections', nontrivial=True)
    check_nested_collections(rep, common.rng_for(seed, 'C19', 'nested'), 25 if quick else 1500)
    # corpus first
    for head, ops_s in CORPUS:
        kind = kind_of(head)
        ops = parse_ops(ops_s, kind)
        rep.case('corpus ' + head + ' ' + ops_s, nontrivial=True)
        run_history(rep, drv, kind, ops)
    for ts, vs in READER_CORPUS:
        t = sexp_types.ty_of_sexp(gen.parse_sexps(ts)[0])
        v = gen.val_of_sexp(gen.parse_sexps(vs)[0])
        rep.case('corpus readers ' + ts + ' ' + vs, nontrivial=True)
        for k in range(6):
            readers_case(rep, common.rng_for(seed, 'C19r', k), t, v, 'corpus')
    for ts, vs in CLONE_CORPUS:
        t = sexp_types.ty_of_sexp(gen.parse_sexps(ts)[0])
        v = gen.val_of_sexp(gen.parse_sexps(vs)[0])
        rep.case('corpus clone ' + ts + ' ' + vs, nontrivial=True)
        for k in range(4):
            clone_case(rep, common.rng_for(seed, 'C19c', k), t, v)
    schema_scalar_checks(rep)
    ks = kinds()
    for i in range(n_hist):
        kind = ks[i % len(ks)]
        ops = gen_history(rng, kind, rng.randrange(2, max_len + 1), wild=False)
        if not ops:
            continue
        canon = kind.head() + ' ' + ' '.join(C.op_sexp(o) for o in ops)
        muts = sum(1 for o in ops if o[0] in C.MUTATORS)
        rep.case(canon, nontrivial=(0 < muts < len(ops)), sample={'kind': kind.head(), 'ops': canon[len(kind.head()) + 1:][:300]})
        rep.count('kind=' + kind.kind)
        rep.count('len<=5' if len(ops) <= 5 else ('len<=15' if len(ops) <= 15 else 'len>15'))
        followed = run_history(rep, drv, kind, ops)
        rep.count('steps-compared-with-prototype', followed)
    for i in range(n_wild):
        kind = ks[i % len(ks)]
        ops = gen_history(rng, kind, rng.randrange(2, max_len + 1), wild=True)
        if not ops:
            continue
        rep.case('wild ' + kind.head() + ' ' + ' '.join(C.op_sexp(o) for o in ops), nontrivial=True)
        rep.count('wild')
        run_history(rep, drv, kind, ops)
    g = gen.Gen(rng, max_depth=3)
    for i in range(n_readers):
        t, v = g.case()
        if gen.base_of(t)[0] not in ('seq', 'set', 'seqof', 'setof', 'choice'):
            continue
        rep.case('readers ' + gen.ty_sexp(t) + ' ' + gen.val_sexp(v), nontrivial=gen.depth(t) >= 2)
        rep.count('readers')
        readers_case(rep, rng, t, v, 'gen')
        clone_case(rep, rng, t, v)
    post_shrink(rep, drv)
    drv.close()


def replay(path):
    d = json.load(open(path))
    drv = common.Driver()
    still = 0
    for f in d.get('failures', []):
        r = f.get('minimized') or f['replay']
        if 'ops' not in r:
            r = f['replay']
        col = Collector()
        if r.get('kind', '').startswith('HIST'):
            kind = kind_of(r['kind'])
            run_history(col, drv, kind, parse_ops(' '.join(r['ops']), kind))
        elif r.get('kind') in ('readers', 'clone'):
            t = sexp_types.ty_of_sexp(gen.parse_sexps(r['type'])[0])
            v = gen.val_of_sexp(gen.parse_sexps(r['value'])[0])
            for k in range(10):
                readers_case(col, common.rng_for(k, 'replay'), t, v, 'replay')
                clone_case(col, common.rng_for(k, 'replay'), t, v)
        elif r.get('kind') in ('schema-scalar', 'novalue'):
            schema_scalar_checks(col)
        bad = [x for x in col.failures if x['signature'] == f['signature']]
        print('replay %s: %s' % (f['signature'], 'STILL FAILS' if bad else 'passes now'))
        still += bool(bad)
    return 1 if still else 0
