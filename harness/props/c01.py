"""C01 — BER encode/decode round trip under every encoder mode (DESIGN §5 C01)."""
import json

from harness import common, gen, codec, engine, sigs

CORPUS = [
    # minimized witnesses of repaired defects (run first): (type, value, defMode, chunk)
    ("int", "(i -128)", True, 0),                                   # E5 minimal two's complement
    ("(str 30)", "(s 00e900e920ac)", True, 2),                      # E2 chunking by octets
    ("(str 22)", "(s 616263646566)", True, 2),                      # D2 OCTET STRING fragments
    ("(str 12)", "(s e282ac61c3a9)", False, 1),
    ("(set (r (tag i c 0 real)) (r enum))", "(seq (real -3 2 128) (i -32769))", False, 0),   # D13 SET order, indefinite
    ("(choice (r (str 4)) (r (seqof int)))", "(ch 1 (of))", False, 0),                      # D14 empty indefinite alternative
    # T14 CHOICE {a:1} == CHOICE {b:1}: a non-default member was left out
    ("(seq (d (ch 0 (i 1)) (choice (r int) (r (tag i c 1 int)))))", "(seq (ch 1 (i 1)))", True, 0),
    ("(seq (d (ch 1 (ch 1 (bits -))) (tag e c 0 (choice (r (setof enum)) (r (choice (r (tag e c 0 enum)) (r (tag i c 1 bits)) (r bool)))))))",
     "(seq (ch 0 (of)))", False, 0),
]


def check_case(rep, drv, case, modes, rng):
    for mode in modes:
        cdc, dm, ch = mode
        ie = engine.corr_encode(rep, drv, case, mode)
        if ie[0] != 'ok':
            sig = engine.encode_refusal_region(case, ie) or ('encode-' + str(ie[1]))
            rep.fail(sig, 'BER encoder refused/crashed on a valid value: %s' % (ie[1],),
                     dict(case.replay, kind='encode', mode=list(mode)))
            continue
        data = ie[1]
        idr, md = engine.corr_decode(rep, drv, case, 'ber', data)
        engine.roundtrip_verdict(rep, case, mode, 'ber', data, idr)
        rep.count('mode=%s/%s/%s' % ('def' if dm else 'indef', 'chunk' if ch else 'nochunk', cdc))


def run(rep, tier, seed):
    common.prove(rep)
    rng = common.rng_for(seed, 'C01')
    drv = common.Driver()
    n = 3000 if tier == "quick" else 60000
    rep.rule = ('type-directed generator over the schema universe (depth<=3, tags from a boundary set, values from '
                'per-type boundary sets) x {definite, indefinite} x chunk in {0,1,2,3,7,1000}; non-trivial = type has '
                'depth>=1 or a tag stack; distinct by canonical (type,value)')
    rep.assumptions = ['text codecs trusted', 'decimal REAL not generated here (goes through CPython float)',
                       'values the object model cannot hold (build->abstract not the identity) are skipped and counted']
    # corpus first
    for ts, vs, dm, ch in CORPUS:
        t = gen_ty(ts)
        v = gen.val_of_sexp(gen.parse_sexps(vs)[0])
        case = engine.Case(t, v)
        rep.case('corpus ' + case.canon, nontrivial=True)
        check_case(rep, drv, case, [('ber', dm, ch)], rng)
    for case in engine.gen_cases(rng, n, max_depth=3, allow_any=True, any_ber=True):
        if not engine.representable(case):
            rep.count('unrepresentable')
            if not sigs.t4a_applies(case.t, case.v):
                rep.fail('object-model-loses-value', 'build -> abstract is not the identity', dict(case.replay, kind='build'))
            else:
                rep.fail('T4a-empty-record-ambiguity', 'absent OPTIONAL empty record reads back as present', dict(case.replay, kind='build'))
            continue
        rep.case(case.canon, nontrivial=gen.nontrivial(case.t),
                 sample={'type': gen.ty_sexp(case.t)[:300], 'value': gen.val_sexp(case.v)[:300]})
        rep.count('depth=%d' % gen.depth(case.t))
        modes = [('ber', True, 0), ('ber', False, 0), ('ber', True, rng.choice(engine.CHUNKS)),
                 ('ber', False, rng.choice(engine.CHUNKS))]
        check_case(rep, drv, case, modes, rng)

    def check_one(c, drv, case, r):
        mode = tuple(r.get('enc', r.get('mode', ['ber', True, 0])))
        check_case(c, drv, case, [mode], None)
    engine.post_shrink(rep, drv, check_one)
    drv.close()


def gen_ty(s):
    from harness import sexp_types
    return sexp_types.ty_of_sexp(gen.parse_sexps(s)[0])


def replay(path):
    d = json.load(open(path))
    drv = common.Driver()
    still = 0
    for f in d.get('failures', []):
        r = f['replay']
        t = gen_ty(r['type'])
        v = gen.val_of_sexp(gen.parse_sexps(r['value'])[0])
        rep = common.Report('C01', 'quick', 0)
        rep.known = []
        case = engine.Case(t, v)
        mode = tuple(r.get('enc', r.get('mode', ['ber', True, 0])))
        check_case(rep, drv, case, [mode], None)
        print('replay %s: %s' % (f['signature'], 'STILL FAILS' if rep.failures else 'passes now'))
        still += bool(rep.failures)
    return 1 if still else 0
