"""C01 — BER encode/decode round trip under every encoder mode (DESIGN §5 C01)."""
import json

from harness import common, gen, codec, engine, sigs

CORPUS = [
    # minimized witnesses of repaired defects (run first): (type, value, defMode, chunk)
    ("int", "(i -128)", True, 0),                                   # E5 minimal two's complement
    ("(str 30)", "(s 00e900e920ac)", True, 2),                      # E2 chunking by octets
    ("(str 22)", "(s 616263646566)", True, 2),                      # D2 OCTET STRING fragments
    ("(str 12)", "(s e282ac61c3a9)", False, 1),
    ("(set (r (tag i c 0 real)) (r enum))", "(seq (real -3 2 128) (i -32769))", False, 0),   # D13 SET order, indefinite
    ("(choice (r (str 4)) (r (seqof int)))", "(ch 1 (of))", False, 0),                      # D14 empty indefinite alternative
    # T14 CHOICE {a:1} == CHOICE {b:1}: a non-default member was left out
    ("(seq (d (ch 0 (i 1)) (choice (r int) (r (tag i c 1 int)))))", "(seq (ch 1 (i 1)))", True, 0),
    ("(seq (d (ch 1 (ch 1 (bits -))) (tag e c 0 (choice (r (setof enum)) (r (choice (r (tag e c 0 enum)) (r (tag i c 1 bits)) (r bool)))))))",
     "(seq (ch 0 (of)))", False, 0),
]


def check_case(rep, drv, case, modes, rng):
    for mode in modes:
        cdc, dm, ch = mode
        ie = engine.corr_encode(rep, drv, case, mode)
        if ie[0] != 'ok':
            sig = engine.encode_refusal_region(case, ie) or ('encode-' + str(ie[1]))
            rep.fail(sig, 'BER encoder refused/crashed on a valid value: %s' % (ie[1],),
                     dict(case.replay, kind='encode', mode=list(mode)))
            continue
        data = ie[1]
        idr, md = engine.corr_decode(rep, drv, case, 'ber', data)
        engine.roundtrip_verdict(rep, case, mode, 'ber', data, idr)
        rep.count('mode=%s/%s/%s' % ('def' if dm else 'indef', 'chunk' if ch else 'nochunk', cdc))


def run(rep, tier, seed):
    common.prove(rep)
    rng = common.rng_for(seed, 'C01')
    drv = common.Driver()
    n = 3000 if tier == "quick" else 60000
    rep.rule = ('type-directed generator over the schema universe (depth<=3, tags from a boundary set, values from '
                'per-type boundary sets) x {definite, indefinite} x chunk in {0,1,2,3,7,1000}; non-trivial = type has '
                'depth>=1 or a tag stack; distinct by canonical (type,value)')
    rep.assumptions = ['text codecs trusted', 'decimal REAL not generated here (goes through CPython float)',
                       'values the object model cannot hold (build->abstract not the identity) are skipped and counted']
    # the octet kernels of INTEGER and OBJECT IDENTIFIER are translated from the source on every run; source_oid_roundtrip /
    # source_integer_roundtrip are about those translations, which are compared with the code here
    from harness import kernels
    kernels.obligations(rep, ['toBytes', 'oidEncode', 'oidDecode', 'realBin', 'realDec', 'fromBytes', 'intDecode', 'wrapTags', 'decodeLength'])
    kernels.check(rep, drv, seed, 150 if tier == 'quick' else 4000, which=('toBytes', 'oidEncode', 'oidDecode', 'realBin', 'realDec', 'intDecode', 'wrapTags', 'decodeLength'))
    # corpus first
    for ts, vs, dm, ch in CORPUS:
        t = gen_ty(ts)
        v = gen.val_of_sexp(gen.parse_sexps(vs)[0])
        case = engine.Case(t, v)
        rep.case('corpus ' + case.canon, nontrivial=True)
        check_case(rep, drv, case, [('ber', dm, ch)], rng)
    check_any_positions(rep)
    for case in engine.gen_cases(rng, n, max_depth=3, allow_any=True, any_ber=True):
        if not engine.representable(case):
            rep.count('unrepresentable')
            if not sigs.t4a_applies(case.t, case.v):
                rep.fail('object-model-loses-value', 'build -> abstract is not the identity', dict(case.replay, kind='build'))
            else:
                rep.fail('T4a-empty-record-ambiguity', 'absent OPTIONAL empty record reads back as present', dict(case.replay, kind='build'))
            continue
        rep.case(case.canon, nontrivial=gen.nontrivial(case.t),
                 sample={'type': gen.ty_sexp(case.t)[:300], 'value': gen.val_sexp(case.v)[:300]})
        rep.count('depth=%d' % gen.depth(case.t))
        modes = [('ber', True, 0), ('ber', False, 0), ('ber', True, rng.choice(engine.CHUNKS)),
                 ('ber', False, rng.choice(engine.CHUNKS))]
        check_case(rep, drv, case, modes, rng)

    def check_one(c, drv, case, r):
        mode = tuple(r.get('enc', r.get('mode', ['ber', True, 0])))
        check_case(c, drv, case, [mode], None)
    engine.post_shrink(rep, drv, check_one)
    drv.close()


def check_any_positions(rep):
    """ANY next to members the decoder has to tell apart by tag (the TagMap default-type mechanism): as the tail of a
    SEQUENCE, as an OPTIONAL member followed by further OPTIONAL/DEFAULT members, as first / middle / last member of a SET;
    present and absent, the siblings present and absent, contents primitive, constructed and explicitly tagged (tags distinct
    from the siblings'), every encoder mode.  Direct oracle on the real codec (the Lean model's universe keeps ANY out of tag
    dispatch).  An ANY alternative of a CHOICE is not a position the library documents and is not drawn."""
    from pyasn1.type import univ, namedtype
    from pyasn1.codec.ber import encoder, decoder
    from pyasn1 import error
    NT, OT, DT = namedtype.NamedType, namedtype.OptionalNamedType, namedtype.DefaultedNamedType
    contents = [bytes.fromhex(h) for h in ('0403666f78', '3003020107', 'a203020107', '0500', '240704026162040163', 'df810100', '')]
    shapes = [
        ('seq-tail', univ.Sequence, [NT('id', univ.Integer()), DT('critical', univ.Boolean(False)), OT('params', univ.Any())]),
        ('seq-middle', univ.Sequence, [NT('id', univ.Integer()), OT('params', univ.Any()), DT('critical', univ.Boolean(False))]),
        ('seq-middle2', univ.Sequence, [OT('params', univ.Any()), OT('flag', univ.Boolean()), OT('n', univ.Integer()), NT('e', univ.Enumerated())]),
        ('seq-two-runs', univ.Sequence, [OT('q', univ.Null()), OT('params', univ.Any()), OT('flag', univ.Boolean()), NT('id', univ.Integer()),
                                         OT('more', univ.Any()), DT('critical', univ.Boolean(False))]),
        ('set-first', univ.Set, [NT('payload', univ.Any()), NT('id', univ.Integer())]),
        ('set-last', univ.Set, [NT('id', univ.Integer()), NT('payload', univ.Any())]),
        ('set-middle', univ.Set, [NT('id', univ.Integer()), OT('payload', univ.Any()), DT('b', univ.Boolean(True))]),
    ]
    others = {'critical': True, 'flag': True, 'n': 3, 'b': False, 'q': ''}
    required = {'id': 5, 'e': 2}
    for name, cls, comps in shapes:
        T = cls(componentType=namedtype.NamedTypes(*comps))
        for content in contents:
            for with_others in (True, False):
                for with_any in (True, False):
                    if not content and with_any:
                        continue
                    if name == 'seq-two-runs' and content[:1] == b'\x05':
                        continue        # the content's tag must differ from the siblings' (q is a NULL)
                    v = T.clone()
                    for nt in comps:
                        if isinstance(nt.asn1Object, univ.Any):
                            if with_any or not nt.isOptional:
                                v[nt.name] = univ.Any(content or bytes.fromhex('0500'))
                        elif nt.isOptional or nt.isDefaulted:
                            if with_others:
                                v[nt.name] = others[nt.name]
                        else:
                            v[nt.name] = required[nt.name]
                    for dm in (True, False):
                        for ch in (0, 1, 3, 1000):
                            rep.case('any-position %s %s %s %s %s %d' % (name, content.hex(), with_others, with_any, dm, ch), nontrivial=True)
                            rep.count('any-positions')
                            replay = {'kind': 'any-position', 'shape': name, 'content': content.hex(), 'siblings': with_others,
                                      'any_present': with_any, 'defMode': dm, 'chunk': ch}
                            try:
                                data = encoder.encode(v, defMode=dm, maxChunkSize=ch)
                            except Exception as ex:  # noqa
                                rep.fail('any-position-encode:' + type(ex).__name__, 'encoder raised %s' % ex, replay)
                                continue
                            try:
                                out, rest = decoder.decode(data, asn1Spec=T)
                            except error.PyAsn1Error as ex:
                                rep.fail('any-position-roundtrip:%s' % name, 'own encoding %s refused: %s' % (data.hex(), ex), replay)
                                continue
                            except Exception as ex:  # noqa
                                rep.fail('any-position-leak:' + type(ex).__name__, 'decoder raised %s on %s' % (ex, data.hex()), replay)
                                continue
                            same = rest == b'' and all(
                                (out.getComponentByName(nt.name, default=None, instantiate=False) is None) ==
                                (v.getComponentByName(nt.name, default=None, instantiate=False) is None) and
                                (v.getComponentByName(nt.name, default=None, instantiate=False) is None or
                                 bytes(encoder.encode(out[nt.name])) == bytes(encoder.encode(v[nt.name]))) for nt in comps)
                            if not same:
                                rep.fail('any-position-roundtrip:%s' % name, '%s decoded to %s, remainder %s' % (
                                    data.hex(), out.prettyPrint().replace('\n', ' '), rest.hex()), replay)


def gen_ty(s):
    from harness import sexp_types
    return sexp_types.ty_of_sexp(gen.parse_sexps(s)[0])


def replay(path):
    d = json.load(open(path))
    drv = common.Driver()
    still = 0
    for f in d.get('failures', []):
        r = f['replay']
        t = gen_ty(r['type'])
        v = gen.val_of_sexp(gen.parse_sexps(r['value'])[0])
        rep = common.Report('C01', 'quick', 0)
        rep.known = []
        case = engine.Case(t, v)
        mode = tuple(r.get('enc', r.get('mode', ['ber', True, 0])))
        check_case(rep, drv, case, [mode], None)
        print('replay %s: %s' % (f['signature'], 'STILL FAILS' if rep.failures else 'passes now'))
        still += bool(rep.failures)
    return 1 if still else 0
