"""C20 — time values convert to and from datetime without changing the instant (DESIGN §5 C20).

Three layers, in this order:
  corpus          minimized witnesses of the defects repaired in /repo (a revert is caught here first)
  correspondence  Lean model (lean/Asn1/Time.lean, ops TIME_FROM/TIME_AS/TIME_CANON/TIME_INSTANT/TIME_FLAGS)
                  against the real code, on the datetime grid, on X.680 grammar strings and on a malformed stream
  direct oracle   on the real code only, with references written here independently of the model:
                  round trip with Python's aware-datetime arithmetic, a regex-level canonical-shape
                  checker, and an X.680 reader built on regular expressions and Fractions
"""
import calendar
import datetime as D
import itertools
import json
import os
import re
from fractions import Fraction

from harness import common
from pyasn1.type import useful
from pyasn1.codec.cer import encoder as cer_encoder
from pyasn1.codec.der import encoder as der_encoder
from pyasn1 import error

KINDS = {'gt': useful.GeneralizedTime, 'utc': useful.UTCTime}
ENCODERS = {'cer': cer_encoder, 'der': der_encoder}
YEARS = [1, 1000, 1999, 2000, 2049, 2050, 9999]
MICROS = [0, 1000, 5000, 50000, 120000, 999000]
OFFSETS = [None, 0, 1, -1, 30, -30, 60, -60, 90, -90, 330, -330, 840, -840]
# month, day, hour, minute, second — month/day/hour boundaries (valid in every grid year, none of which is leap-sensitive here)
MOMENTS = [(1, 1, 0, 0, 0), (12, 31, 23, 59, 59), (2, 28, 0, 0, 1), (3, 1, 23, 0, 0), (7, 11, 0, 1, 2),
           (10, 9, 9, 9, 9), (11, 30, 12, 30, 0)]


def classify(e):
    if isinstance(e, error.PyAsn1Error):
        return 'liberr'
    return 'leak:' + type(e).__name__


def hx(s):
    return s.encode('latin-1').hex() if s else '-'


def unhx(h):
    return '' if h == '-' else bytes.fromhex(h).decode('latin-1')


# ------------------------------------------------------------------------------ the real code

def mk_dt(y, mo, d, h, mi, s, us, off):
    tz = None if off is None else D.timezone(D.timedelta(minutes=off))
    return D.datetime(y, mo, d, h, mi, s, us, tzinfo=tz)


def off_minutes(dt):
    if dt.tzinfo is None:
        return None
    td = dt.tzinfo.utcoffset(None)          # not dt.utcoffset(): that one validates |offset| < 24 h
    total = td.days * 86400 + td.seconds
    if total % 60 or td.microseconds:
        return 'frac:%r' % td
    return total // 60


def impl_from(kind, f, off):
    try:
        return 'ok ' + hx(str(KINDS[kind].fromDateTime(mk_dt(*f, off))))
    except Exception as e:  # noqa
        return 'err ' + classify(e)


def impl_as_dt(kind, text):
    return KINDS[kind](text).asDateTime


def impl_as(kind, text):
    try:
        dt = impl_as_dt(kind, text)
    except Exception as e:  # noqa
        return 'err ' + classify(e)
    o = off_minutes(dt)
    return 'ok %d %d %d %d %d %d %d %s' % (dt.year, dt.month, dt.day, dt.hour, dt.minute, dt.second, dt.microsecond,
                                           'none' if o is None else o)


def content_octets(b):
    """strip identifier and (short or long definite) length octets of a primitive encoding"""
    i = 1
    if b[0] & 0x1f == 0x1f:
        raise ValueError('multi-octet tag')
    ln = b[i]
    i += 1
    if ln & 0x80:
        n = ln & 0x7f
        if n == 0:
            raise ValueError('indefinite length on a time value')
        ln = int.from_bytes(b[i:i + n], 'big')
        i += n
    if len(b) != i + ln:
        raise ValueError('length octets do not cover the content')
    return b[i:]


def _record_member(codec, kind, text, as_mapping):
    from pyasn1.type import univ as _u, namedtype as _nt
    rec = _u.Sequence(componentType=_nt.NamedTypes(_nt.NamedType('when', KINDS[kind]())))
    if as_mapping:
        return ENCODERS[codec].encode({'when': text}, asn1Spec=rec)
    v = rec.clone()
    v['when'] = text
    return ENCODERS[codec].encode(v)


def impl_canon(kind, text, codec):
    try:
        b = ENCODERS[codec].encode(KINDS[kind](text))
    except Exception as e:  # noqa
        return 'err ' + classify(e)
    want_tag = 24 if kind == 'gt' else 23
    if b[0] != want_tag:
        return 'err tag:%d' % b[0]
    return 'ok ' + (content_octets(b).hex() or '-')


# ------------------------------------------------------------------------------ independent references

GT_RE = re.compile(r'(\d{4})(\d\d)(\d\d)(\d\d)(?:(\d\d)(\d\d)?)?(?:[.,](\d+))?(Z|[+-]\d\d(?:\d\d)?)?', re.A)
UTC_RE = re.compile(r'(\d\d)(\d\d)(\d\d)(\d\d)(\d\d)(\d\d)?()(Z|[+-]\d{4})', re.A)
CANON_RE = {'gt': re.compile(r'\d{10}(\d\d(\d\d)?)?(\.\d*[1-9])?Z', re.A), 'utc': re.compile(r'\d{10}(\d\d)?Z', re.A)}


def x680(kind, text):
    """X.680 §46/§47 reading: (year, month, day, time of day in microseconds as a Fraction, offset minutes | None)
    or None when the text is outside the grammar / not a calendar date. UTCTime years use the POSIX window
    (00-68 -> 20xx, 69-99 -> 19xx) that strptime — hence pyasn1 — applies."""
    m = (GT_RE if kind == 'gt' else UTC_RE).fullmatch(text)
    if not m:
        return None
    y, mo, d, h, mi, s, f, z = m.groups()
    y = int(y)
    if kind == 'utc':
        y += 2000 if y <= 68 else 1900
    mo, d, h = int(mo), int(d), int(h)
    if not 1 <= mo <= 12:
        return None
    dim = [31, 29 if calendar.isleap(y) else 28, 31, 30, 31, 30, 31, 31, 30, 31, 30, 31][mo - 1]
    if not 1 <= d <= dim or h > 23:
        return None
    unit = 3600
    if mi is not None:
        unit = 60
        if int(mi) > 59:
            return None
    if s is not None:
        unit = 1
        if int(s) > 59:
            return None
    tod = Fraction(h * 3600 + int(mi or 0) * 60 + int(s or 0))
    if f:
        tod += unit * Fraction(int(f), 10 ** len(f))
    if z is None:
        off = None
    elif z == 'Z':
        off = 0
    else:
        hh, mm = int(z[1:3]), int(z[3:5] or 0)
        if hh > 23 or mm > 59:
            return None
        off = (hh * 60 + mm) * (-1 if z[0] == '-' else 1)
    return (y, mo, d, tod * 10 ** 6, off)


def dt_reading(dt):
    return (dt.year, dt.month, dt.day,
            Fraction((dt.hour * 3600 + dt.minute * 60 + dt.second) * 10 ** 6 + dt.microsecond), off_minutes(dt))


def reading_str(r):
    """the model's normal form: num/10^scale microseconds in lowest decimal terms"""
    if r is None:
        return 'none'
    y, mo, d, tod, off = r
    scale = 0
    while (tod * 10 ** scale).denominator != 1:
        scale += 1
    return 'ok %d %d %d %d %d %s' % (y, mo, d, tod * 10 ** scale, scale, 'none' if off is None else off)


def frac_of(text):
    m = re.search(r'[.,](\d*)', text)
    return None if m is None else m.group(1)


def has_inner_zero(fr):
    return fr is not None and '0' in fr.rstrip('0')


# ------------------------------------------------------------------------------ direct oracles (real code only)

def oracle_roundtrip(rep, kind, f, off, replay):
    """fromDateTime . asDateTime keeps instant and offset; reference = aware datetime arithmetic"""
    dt = mk_dt(*f, off)
    try:
        g = KINDS[kind].fromDateTime(dt)
        back = g.asDateTime
    except Exception as e:  # noqa
        rep.fail('roundtrip-' + classify(e), 'fromDateTime/asDateTime raised %r on %s' % (e, dt.isoformat()), replay)
        return False
    want = dt if dt.tzinfo is not None else dt.replace(tzinfo=D.timezone.utc)
    try:
        same_instant = (back.tzinfo is not None and back == want)
        same_offset = back.tzinfo is not None and back.utcoffset() == want.utcoffset()
    except Exception as e:  # noqa
        rep.fail('roundtrip-compare-' + type(e).__name__, 'result not comparable: %r' % e, replay)
        return False
    if not same_instant:
        rep.fail('roundtrip-instant', '%s -> %s -> %s' % (dt.isoformat(), g, back.isoformat()), replay)
        return False
    if not same_offset:
        rep.fail('roundtrip-offset', '%s -> %s -> %s' % (dt.isoformat(), g, back.isoformat()), replay)
        return False
    # the text itself, read per X.680, is that instant too (known finding: '%d' % ms is not zero-padded)
    r = x680(kind, str(g))
    if r != dt_reading(want):
        ms = f[6] // 1000
        sig = 'from-fraction-unpadded' if (kind == 'gt' and 0 < ms < 100 and r is not None
                                           and r[:3] == (f[0], f[1], f[2]) and r[4] == (off or 0)) else 'from-text-instant'
        rep.fail(sig, '%s written as %s which X.680 reads as %s' % (dt.isoformat(), g, reading_str(r)), replay)
        return sig == 'from-fraction-unpadded'
    return True


def oracle_encoder(rep, kind, text, replay):
    """CER and DER: output canonical, same X.680 instant as the input; non-UTC refused with PyAsn1Error"""
    ok = True
    rin = x680(kind, text)
    # a dangling decimal point after an otherwise valid UTC value ('20170801120112.Z'): the encoder accepts it
    dangling = (rin is None and kind == 'gt' and text.endswith('.Z') and frac_of(text[:-2]) is None
                and x680(kind, text[:-2] + 'Z') is not None)
    for codec in ('cer', 'der'):
        rp = dict(replay, codec=codec)
        try:
            out = content_octets(ENCODERS[codec].encode(KINDS[kind](text))).decode('latin-1')
        except error.PyAsn1Error:
            rep.count('enc-refused')
            continue
        except Exception as e:  # noqa
            if rin is not None or dangling:
                rep.fail('encoder-leak-' + type(e).__name__, 'encoding %r raised %r' % (text, e), rp)
                ok = False
            continue
        rep.count('enc-emitted')
        if rin is None and not dangling:
            continue                          # outside the grammar: nothing demanded
        if rin is not None and rin[4] != 0:
            rep.fail('nonutc-accepted', '%s value %r (offset %r) encoded as %r' % (codec, text, rin[4], out), rp)
            ok = False
            continue
        if not CANON_RE[kind].fullmatch(out):
            rep.fail('noncanonical-output', '%s of %r is %r' % (codec, text, out), rp)
            ok = False
            continue
        if rin is None:
            rin_eff = x680(kind, text[:-2] + 'Z')      # dangling decimal point: reads as without it
        else:
            rin_eff = rin
        if x680(kind, out) != rin_eff:
            sig = 'canon-inner-zero-deleted' if has_inner_zero(frac_of(text)) else 'canon-instant-differs'
            rep.fail(sig, '%s of %r is %r: %s instead of %s' % (codec, text, out, reading_str(x680(kind, out)),
                                                               reading_str(rin_eff)), rp)
            ok = ok and sig == 'canon-inner-zero-deleted'
        # the other ways of handing the same value to the encoder - value object or plain text together with the type,
        # a member of a record given as an object and as a mapping - write the same octets
        for route, mk in (('object+asn1Spec', lambda: ENCODERS[codec].encode(KINDS[kind](text), asn1Spec=KINDS[kind]())),
                          ('text+asn1Spec', lambda: ENCODERS[codec].encode(text, asn1Spec=KINDS[kind]())),
                          ('record-member', lambda: _record_member(codec, kind, text, False)),
                          ('record-mapping+asn1Spec', lambda: _record_member(codec, kind, text, True))):
            rep.count('enc-routes')
            try:
                b2 = mk()
                if route.startswith('record'):
                    b2 = bytes(b2)
                    b2 = b2[2:-2] if b2[1] == 0x80 else content_octets(b2)      # the record's own header (CER: indefinite)
                out2 = content_octets(b2).decode('latin-1')
            except Exception as e:  # noqa
                out2 = 'err ' + type(e).__name__
            if out2 != out:
                rep.fail('canonical-form-depends-on-route', '%s of %r via %s is %r, via encode(value object) %r' % (codec, text, route, out2, out),
                         dict(rp, route=route))
                ok = False
                break
    return ok


def oracle_as(rep, kind, text, replay):
    """asDateTime of a grammar string is the instant X.680 gives it (known finding: fraction digits are read as
    an integer number of milliseconds whatever their count and whatever unit they follow)"""
    r = x680(kind, text)
    if r is None or r[0] < 1:
        return True
    try:
        got = dt_reading(impl_as_dt(kind, text))
    except Exception as e:  # noqa
        got = 'raised ' + classify(e)
    if got != r:
        sig = 'as-fraction-integer-ms' if frac_of(text) else 'as-instant-differs'
        rep.fail(sig, 'asDateTime(%r) = %s, X.680 reads %s' % (text, got if isinstance(got, str) else reading_str(got),
                                                              reading_str(r)), replay)
        return sig == 'as-fraction-integer-ms'
    return True


# ------------------------------------------------------------------------------ correspondence

def corr(rep, drv, op, kind, arg, impl):
    ans = drv.ask('%s %s %s' % (op, kind, arg))
    rep.corr_checked += 1
    if ans != impl:
        rep.disagree(op, [kind, arg], ans, impl)
        return False
    return True


def corr_string(rep, drv, kind, text):
    h = hx(text)
    corr(rep, drv, 'TIME_AS', kind, h, impl_as(kind, text))
    m = drv.ask('TIME_CANON %s %s' % (kind, h))
    for codec in ('cer', 'der'):
        rep.corr_checked += 1
        i = impl_canon(kind, text, codec)
        if i != m:
            rep.disagree('TIME_CANON/' + codec, [kind, text], m, i)
    corr(rep, drv, 'TIME_INSTANT', kind, h, reading_str(x680(kind, text)))


# ------------------------------------------------------------------------------ generators

def gen_fraction(rng, n):
    if n == 0:
        return ''
    style = rng.randrange(6)
    if style == 0:
        return '0' * n
    if style == 1:                                  # trailing zeros
        k = rng.randrange(1, n + 1)
        return ''.join(rng.choice('123456789') for _ in range(k)) + '0' * (n - k)
    if style == 2:                                  # leading / interior zeros
        return ''.join(rng.choice('00123') for _ in range(n))
    if style == 3:
        return ''.join(rng.choice('123456789') for _ in range(n))
    return ''.join(rng.choice('0123456789') for _ in range(n))


def gen_offset(rng):
    o = rng.choice(OFFSETS[1:] + [rng.randrange(-1439, 1440)])
    return o


def gen_grammar(rng, kind, bad=0.06):
    """a string of the X.680 grammar of the type (with probability `bad`, one field out of range)"""
    y = rng.choice(YEARS + [2016, 1900, 2068, 2069, 1969, 1968, rng.randrange(0, 10000)])
    mo = rng.randrange(1, 13)
    d = rng.choice([1, 28, rng.randrange(1, 29), calendar.monthrange(max(y, 1), mo)[1]])
    h, mi, s = rng.choice([0, 23, rng.randrange(24)]), rng.choice([0, 59, rng.randrange(60)]), rng.choice([0, 59, rng.randrange(60)])
    if rng.random() < bad:
        w = rng.randrange(6)
        if w == 0:
            mo = rng.choice([0, 13])
        elif w == 1:
            d = rng.choice([0, 30, 31, 32]) if mo == 2 else rng.choice([0, 32])
        elif w == 2:
            h = 24
        elif w == 3:
            mi = 60
        elif w == 4:
            s = rng.choice([60, 61])
        else:
            mo, d = 2, 29
    if kind == 'gt':
        form = rng.choice(['h', 'hm', 'hms', 'hms', 'hms'])
        body = '%04d%02d%02d%02d' % (y, mo, d, h)
    else:
        form = rng.choice(['hm', 'hms', 'hms'])
        body = '%02d%02d%02d%02d' % (y % 100, mo, d, h)
    if form in ('hm', 'hms'):
        body += '%02d' % mi
    if form == 'hms':
        body += '%02d' % s
    if kind == 'gt':
        n = rng.choice([0, 0, 1, 2, 3, 3, 4, 5, 6])
        if n:
            body += rng.choice('..,') + gen_fraction(rng, n)
        zk = rng.choice(['Z', 'Z', 'Z', 'hhmm', 'hh', 'local'])
    else:
        zk = rng.choice(['Z', 'Z', 'hhmm'])
    if zk == 'Z':
        body += 'Z'
    elif zk == 'hhmm':
        o = gen_offset(rng)
        body += '%s%02d%02d' % ('-' if o < 0 else '+', abs(o) // 60, abs(o) % 60)
        if rng.random() < bad / 3:
            body = body[:-4] + rng.choice(['2400', '0060', '9959'])
    elif zk == 'hh':
        o = rng.choice([0, 1, 2, 5, 14, 23])
        body += '%s%02d' % (rng.choice('+-'), o)
    return body


ALPHABET = '0123456789' * 3 + '..,,+-ZZ _a:\t'


def mutate(rng, text):
    """the malformed stream: a grammar string with 1..3 edits"""
    t = list(text)
    for _ in range(rng.choice([1, 1, 2, 3])):
        w = rng.randrange(4)
        if w == 0 and t:
            del t[rng.randrange(len(t))]
        elif w == 1:
            t.insert(rng.randrange(len(t) + 1), rng.choice(ALPHABET))
        elif w == 2 and t:
            t[rng.randrange(len(t))] = rng.choice(ALPHABET)
        elif t:
            i = rng.randrange(len(t))
            t.insert(i, t[i])
    return ''.join(t)


MALFORMED_FIXED = ['', 'Z', '.', '.Z', '0Z', '+', '-', '2017.Z', '20170801120112..Z', '20170801120112.0.0Z',
                   '20170801120112.1.0Z', '20170801120112.Z5Z', '2017.0801120112Z', '20170801120112.1_0Z',
                   '20170801120112. 1Z', '20170801120112.+1', '20170801120112.-1+0100', '20170801120112+1 00',
                   '20170801120112+ 100', '20170801120112+-100', '20170801120112+0_00', '20170801120112+9900',
                   '20170801120112-9959', '2017080112011+0100', '201781120112', '2017811201', '20170801 10112',
                   '20170229120000Z', '20160229120000Z', '00000101000000Z', '20170801120160Z', '20170801120161Z',
                   '20170801120112.1234567Z', '20170801120112,1234567', '170801120112.5Z', '1708011201Z',
                   '20170801120112Z ', ' 20170801120112Z', '20170801120112z', '20170801120112.000000Z']


# ------------------------------------------------------------------------------ run

def load_corpus():
    p = os.path.join(common.VERIF, 'corpus', 'C20', 'witnesses.json')
    return json.load(open(p))['cases'] if os.path.exists(p) else []


def run_case(rep, drv, c):
    """one stored case (corpus or replay) through the oracles; returns True when it holds"""
    kind = c['type']
    if c['kind'] == 'roundtrip':
        f, off = tuple(c['fields']), c['offset']
        ok = oracle_roundtrip(rep, kind, f, off, c)
        if drv is not None:
            corr(rep, drv, 'TIME_FROM', kind, '%d %d %d %d %d %d %d %s' % (f + ('none' if off is None else off,)),
                 impl_from(kind, f, off))
        return ok
    text = c['text']
    ok = True
    if c['kind'] in ('encode', 'string'):
        ok = oracle_encoder(rep, kind, text, c) and ok
    if c['kind'] in ('as', 'string'):
        ok = oracle_as(rep, kind, text, c) and ok
    if drv is not None:
        corr_string(rep, drv, kind, text)
    return ok


def run(rep, tier, seed):
    common.prove(rep)
    rng = common.rng_for(seed, 'C20')
    drv = common.Driver()
    thorough = tier != 'quick'
    rep.rule = ('(a) datetime grid: years {1,1000,1999,2000,2049,2050,9999} x microseconds {0,1000,5000,50000,120000,999000} '
                'x offsets {none,0,+-1,+-30,+-60,+-90,+-330,+-840 min} x 7 month/day/hour boundary moments, GeneralizedTime; '
                'UTCTime with microsecond 0 and years 1999..2050 (+ seeded random dates, every whole-minute offset in thorough); '
                '(b) strings of the X.680 grammar of both types (fraction 0..6 digits biased to zeros, "."/",", h/hm/hms, '
                'Z/+-hhmm/+-hh/local, 6% with one field out of range) and a malformed stream (1-3 character edits + fixed list). '
                'non-trivial = offset non-zero, or fraction present, or string not canonical already; distinct by (type, case)')
    rep.assumptions = ['CPython strftime/strptime/int() digit handling is modelled (Asn1/Time.lean), not verified',
                       'UTCTime two-digit years follow the strptime window 1969..2068',
                       'correspondence covers the cases run only']

    # ---- flags: the model's constants are the class attributes of the source
    for kind, cls in KINDS.items():
        e = cer_encoder.SingleItemEncoder.TAG_MAP[cls.tagSet]
        impl = 'ok %d %d %d %d %d %d' % (cls._yearsDigits, cls._hasSubsecond, cls._optionalMinutes, cls._shortTZ,
                                          e.MIN_LENGTH, e.MAX_LENGTH)
        corr(rep, drv, 'TIME_FLAGS', kind, '', impl)
        for codec, mod in ENCODERS.items():
            sie = mod.SingleItemEncoder
            for row in (sie.TAG_MAP.get(cls.tagSet), sie.TYPE_MAP.get(cls.typeId)):
                if type(row) is not type(e):
                    rep.disagree('TIME_FLAGS/table', [kind, codec], type(e).__name__, type(row).__name__)

    # ---- the canonicaliser itself is translated from the source on every run (gen/py2lean.py -> GenK.timeCanon);
    # Props/C20.source_canonicaliser_is_model proves translation = canonTime, and the translation is run against
    # TimeEncoderMixIn.encodeValue here
    from harness import kernels
    kernels.obligations(rep, ['timeCanon'])
    kernels.check(rep, drv, seed, 600 if not thorough else 30000, which=('timeCanon',))

    # ---- corpus first
    for c in load_corpus():
        rep.case('corpus ' + json.dumps(c, sort_keys=True), nontrivial=True, sample=c)
        rep.count('corpus')
        run_case(rep, drv, c)

    # ---- (a) the datetime grid
    def grid_case(kind, f, off, property_case):
        canon = '%s %r %r' % (kind, f, off)
        rep.case(canon, nontrivial=bool(off) or f[6] != 0)
        rep.count('grid-' + kind)
        rep.count('offset=%s' % ('none' if off is None else 'zero' if off == 0 else 'east' if off > 0 else 'west'))
        replay = {'kind': 'roundtrip', 'type': kind, 'fields': list(f), 'offset': off}
        if property_case:
            oracle_roundtrip(rep, kind, f, off, replay)
        r = impl_from(kind, f, off)
        corr(rep, drv, 'TIME_FROM', kind, '%d %d %d %d %d %d %d %s' % (f + ('none' if off is None else off,)), r)
        if r.startswith('ok '):
            text = unhx(r[3:])
            corr(rep, drv, 'TIME_AS', kind, r[3:], impl_as(kind, text))
            corr(rep, drv, 'TIME_INSTANT', kind, r[3:], reading_str(x680(kind, text)))
            if not off:
                oracle_encoder(rep, kind, text, {'kind': 'encode', 'type': kind, 'text': text})

    for y, us, off, mom in itertools.product(YEARS, MICROS, OFFSETS, MOMENTS):
        f = (y,) + mom + (us,)
        grid_case('gt', f, off, True)
        if us == 0:
            grid_case('utc', f, off, 1969 <= y <= 2068)
    n_rand = 150000 if thorough else 5000
    for _ in range(n_rand):
        y = rng.choice(YEARS + [rng.randrange(1, 10000)] * 3)
        mo = rng.randrange(1, 13)
        d = rng.randrange(1, calendar.monthrange(y, mo)[1] + 1)
        f = (y, mo, d, rng.randrange(24), rng.randrange(60), rng.randrange(60), rng.choice(MICROS + [rng.randrange(1000) * 1000]))
        off = rng.choice(OFFSETS + [rng.randrange(-1439, 1440)] * 3)
        grid_case('gt', f, off, True)
        grid_case('utc', f[:6] + (0,), off, 1969 <= y <= 2068)
    if thorough:
        for off in range(-1439, 1440):
            grid_case('gt', (2000, 2, 29, 23, 59, 59, 999000), off, True)
            grid_case('utc', (2000, 2, 29, 23, 59, 59, 0), off, True)

    # ---- (b) grammar strings, then the malformed stream
    n_str = 900000 if thorough else 30000
    for i in range(n_str):
        kind = 'gt' if rng.random() < 0.7 else 'utc'
        text = gen_grammar(rng, kind)
        fr = frac_of(text)
        rep.case('%s %s' % (kind, text), nontrivial=bool(fr) or not text.endswith('Z'))
        rep.count('str-' + kind)
        rep.count('frac-len=%s' % ('-' if fr is None else len(fr)))
        rep.count('zone=' + ('Z' if text.endswith('Z') else 'offset' if ('+' in text or '-' in text) else 'local'))
        if x680(kind, text) is None:
            rep.count('str-out-of-range')
        replay = {'kind': 'string', 'type': kind, 'text': text}
        oracle_encoder(rep, kind, text, replay)
        oracle_as(rep, kind, text, replay)
        corr_string(rep, drv, kind, text)
        if i % 3 == 0:
            bad = mutate(rng, text)
            rep.count('malformed')
            rep.case('%s %s' % (kind, bad), nontrivial=True)
            try:
                bad.encode('ascii')
            except UnicodeError:
                continue
            corr_string(rep, drv, kind, bad)
            oracle_encoder(rep, kind, bad, {'kind': 'encode', 'type': kind, 'text': bad})
    for bad in MALFORMED_FIXED:
        for kind in KINDS:
            rep.count('malformed')
            rep.case('%s %s' % (kind, bad), nontrivial=True)
            corr_string(rep, drv, kind, bad)
            oracle_encoder(rep, kind, bad, {'kind': 'encode', 'type': kind, 'text': bad})
    # dangling decimal point and exhaustive short fractions on the three GeneralizedTime forms
    digs = '019' if not thorough else '0123459'
    for base in ('2017080112', '201708011201', '20170801120112'):
        for n in range(0, 5 if not thorough else 6):
            for fr in itertools.product(digs, repeat=n):
                text = base + '.' + ''.join(fr) + 'Z'
                rep.case('gt ' + text, nontrivial=True)
                rep.count('frac-exhaustive')
                oracle_encoder(rep, 'gt', text, {'kind': 'encode', 'type': 'gt', 'text': text})
                corr_string(rep, drv, 'gt', text)
    drv.close()


def replay(path):
    """re-run the failing inputs stored in a replay file against the current tree"""
    d = json.load(open(path))
    stored = [(f.get('signature'), f['replay']) for f in d.get('failures', [])] or [(None, c) for c in d.get('cases', [])]
    still = 0
    if not stored:
        print(json.dumps(d, indent=1)[:4000])
        print('no stored failing inputs in this replay file (kind=%s)' % d.get('kind'))
        return 0
    for sig, c in stored:
        rep = common.Report('C20', 'replay', 0)
        rep.known = []                               # known findings count as failures when replayed
        try:
            run_case(rep, None, c)
        except Exception as e:  # noqa
            print('ERROR replaying %r: %r' % (c, e))
            continue
        hits = [f for f in rep.failures if sig is None or f['signature'] == sig]
        if hits:
            still += 1
            print('STILL FAILS %s: %s' % (hits[0]['signature'], hits[0]['what']))
        else:
            print('holds now (%s): %s' % (sig, json.dumps(c, sort_keys=True)))
    return 1 if still else 0
