"""C15 — DER/CER decoders enforce the canonical restrictions they implement, everywhere (DESIGN §5 C15)."""
import copy
import json

from harness import common, gen, codec, engine, wire
from harness.props import c03, c06

STR_NUMS = (3, 4, 12, 18, 19, 20, 21, 22, 25, 26, 27, 28, 30, 7, 24, 23)

CORPUS = [
    ("bool", "(b 1)"), ("(str 4)", "(s 4142)"), ("(str 12)", "(s 4142)"), ("bits", "(bits 0100000101000010)"),
    ("(seq (r (tag e c 0 bool)) (r (str 22)))", "(seq (b 1) (s 6162))"),
    ("(tag i c 5 (str 4))", "(s 4142)"), ("(tag i c 5 bool)", "(b 1)"),
]


def rewrites(case, data):
    """every single non-canonical rewrite of one element: (kind, bytes, depth)"""
    root, end = wire.read_tlv(data)
    typed = []
    c03.typed_walk(case.t, root, typed)
    kind_of = {id(n): b for b, n in typed}
    nodes = list(wire.all_nodes(root))
    for idx, (n, depth) in enumerate(nodes):
        # (a) definite -> indefinite on a constructed element
        if n['cons'] and not n['indef']:
            n['indef'] = True
            yield 'indefinite', wire.emit(root), depth
            n['indef'] = False
        # (a') the indefinite-length octet on a primitive element (never valid, least of all in DER): the contents as
        # they are, also with the contents re-framed as one or two OCTET STRING fragments, then end-of-octets
        if not n['cons']:
            cls_, num_ = n['tag']
            content_ = n['content']
            bodies = [content_, wire.emit_ident('u', False, 4) + wire.emit_len(len(content_)) + content_]
            if len(content_) >= 2:
                bodies.append(wire.emit_ident('u', False, 4) + b'\x01' + content_[:1] +
                              wire.emit_ident('u', False, 4) + wire.emit_len(len(content_) - 1) + content_[1:])
            for body_ in bodies:
                n['raw'] = wire.emit_ident(cls_, False, num_) + b'\x80' + body_ + b'\x00\x00'
                yield 'indefinite-primitive', wire.emit(root), depth
            n['raw'] = None
        b = kind_of.get(id(n))
        is_str = (b is not None and b[0] in ('str', 'bits')) or (b is None and n['tag'][0] == 'u' and n['tag'][1] in STR_NUMS)
        # (b) primitive string -> segmented
        if not n['cons'] and is_str and (b is None or b[0] in ('str', 'bits')):
            content = n['content']
            isbits = (b is not None and b[0] == 'bits') or (b is None and n['tag'] == ('u', 3))
            frag_tag = ('u', 3) if isbits else ('u', 4)
            if isbits and not content:
                continue
            label = 'segmented-' + ('bits' if isbits else 'str%s' % (b[1] if b else n['tag'][1]))
            if isbits:
                splits = [[content]] if len(content) < 3 else [[b'\x00' + content[1:2], content[:1] + content[2:]], [content]]
            else:
                splits = [[content]]
                if len(content) >= 2:
                    splits.append([content[:1], content[1:]])
                if len(content) >= 3:
                    splits.append([content[:1], content[1:2], content[2:]])
                if not content:
                    splits.append([])          # zero segments (X.690 8.7.3.2) — still the empty string
                    splits.append([b'', b''])
            saved = (n['cons'], n.get('content'))
            for frags in splits:
                n['cons'] = True
                n['children'] = [{'tag': frag_tag, 'cons': False, 'content': f} for f in frags]
                yield label + '-%d' % len(frags), wire.emit(root), depth
            if not isbits and len(content) >= 2:
                # nested constructed segment
                n['children'] = [{'tag': frag_tag, 'cons': True, 'children': [{'tag': frag_tag, 'cons': False, 'content': content[:1]}]},
                                 {'tag': frag_tag, 'cons': False, 'content': content[1:]}]
                yield label + '-nested', wire.emit(root), depth
            n['cons'] = saved[0]
            del n['children']
        # (c) TRUE as a non-FF octet
        is_bool = (b is not None and b[0] == 'bool') or (b is None and n['tag'] == ('u', 1))
        if not n['cons'] and is_bool and n['content'] == b'\xff':
            for alt in (b'\x01', b'\x7f', b'\xfe'):
                n['content'] = alt
                yield 'boolean-%02x' % alt[0], wire.emit(root), depth
            n['content'] = b'\xff'
        # (c') BOOLEAN contents of another length: sign-extended spellings of -1 / 0, mixed, empty
        if not n['cons'] and is_bool and n['content'] in (b'\xff', b'\x00'):
            keep = n['content']
            for alt in (keep * 2, keep * 3, b'\xff\x00', b'\x00\xff', b''):
                n['content'] = alt
                yield 'boolean-len%d-%s' % (len(alt), alt.hex() or 'empty'), wire.emit(root), depth
            n['content'] = keep


def check_case(rep, drv, case, rng=None):
    ie = codec.impl_encode('der', case.t, case.v, obj=case.fresh_obj())
    if ie[0] != 'ok':
        return
    data = ie[1]
    full = codec.impl_decode('der', case.t, data, case.schema)
    if not (full[0] == 'ok' and full[2] == b''):
        return
    schemaless_ok = not c06.sigs_needs_schema(case.t)
    # history: the lenient decoders have seen the same type objects (and the mutants' BER readings) first - what the strict
    # decoders enforce afterwards must not depend on that
    try:
        codec.DEC['ber'].decode(data, asn1Spec=case.schema)
        codec.DEC['ber'].decode(data)
    except Exception:  # noqa
        pass
    try:
        rws = list(rewrites(case, data))
    except wire.WireError:
        return
    for kind, mutant, depth in rws:
        try:
            codec.DEC['ber'].decode(mutant, asn1Spec=case.schema)
        except Exception:  # noqa
            pass
        rep.count('rewrite=' + kind.split('-')[0])
        rep.count('depth=%d' % min(depth, 4))
        decs = ['der'] + (['cer'] if kind.startswith('boolean') else [])
        for dec in decs:
            for with_schema in ([True, False] if schemaless_ok else [True]):
                r = codec.impl_decode(dec, case.t if with_schema else None, mutant, case.schema if with_schema else None) \
                    if with_schema else schemaless(dec, mutant)
                replay = dict(case.replay, kind='rewrite', rewrite=kind, depth=depth, bytes=mutant.hex(), decoder=dec,
                              schema=with_schema, der=data.hex())
                if r[0] in ('ok', 'bad'):
                    rep.fail('noncanonical-accepted:%s:%s:%s' % (kind.split('-')[0], dec, 'spec' if with_schema else 'nospec'),
                             '%s decoder (%s guiding type) accepted a %s rewrite at depth %d' % (
                                 dec.upper(), 'with' if with_schema else 'without', kind, depth), replay)
                elif r[1].startswith('leak'):
                    rep.fail('noncanonical-' + r[1], 'non-library exception on a %s rewrite' % kind, replay)
                elif r[1] == 'underrun':
                    rep.fail('noncanonical-underrun', 'complete non-canonical input reported as insufficient data', replay)
            if True:
                md = codec.model_decode(drv, dec, case.t, mutant)
                rep.corr_checked += 1
                if md[0] == 'ok':
                    rep.disagree('DEC-noncanonical', replay, 'ok', 'rejected')


def check_every_string_class(rep):
    """every string-like class the library defines (univ, char, useful - including classes that merely rename another one
    and have a typeId of their own, such as T61String and ISO646String), as the guiding type: bare, IMPLICITly and
    EXPLICITly tagged, as a SEQUENCE member, a SEQUENCE OF element and a CHOICE alternative.  The canonical encoding is
    accepted; the segmented and the indefinite-length rewrites are refused by the DER decoder."""
    import importlib
    from pyasn1.type import univ, namedtype, tag
    from pyasn1.codec.der import decoder as der_decoder, encoder as der_encoder
    from pyasn1 import error
    classes = []
    for modname in ('univ', 'char', 'useful'):
        mod = importlib.import_module('pyasn1.type.' + modname)
        for nm in sorted(vars(mod)):
            c = getattr(mod, nm)
            if isinstance(c, type) and issubclass(c, univ.OctetString) and not issubclass(c, univ.Any) and c.__module__ == mod.__name__:
                classes.append(c)
    for c in classes:
        text = '20170801120112Z' if c.__name__ == 'GeneralizedTime' else '170801120112Z' if c.__name__ == 'UTCTime' else '12345678'
        try:
            val = c(text)
        except Exception:  # noqa
            continue
        content = bytes(val) if c.__name__ not in ('BMPString', 'UniversalString') else val.asOctets()
        num = c.tagSet.superTags[-1].tagId
        half = len(content) // 2
        segs = bytes([4, half]) + content[:half] + bytes([4, len(content) - half]) + content[half:]
        prim = bytes([num, len(content)]) + content
        cons = bytes([0x20 | num, len(segs)]) + segs
        indef = bytes([0x20 | num, 0x80]) + segs + b'\x00\x00'
        itag = tag.Tag(tag.tagClassContext, tag.tagFormatSimple, 3)
        layouts = [
            ('bare', c(), lambda e: e),
            ('implicit', c().subtype(implicitTag=itag), lambda e: bytes([(e[0] & 0x20) | 0x83]) + e[1:]),
            ('explicit', c().subtype(explicitTag=itag), lambda e: bytes([0xa3, len(e)]) + e),
            ('seq-member', univ.Sequence(componentType=namedtype.NamedTypes(namedtype.NamedType('n', univ.Integer()), namedtype.NamedType('s', c()))),
             lambda e: bytes([0x30, 3 + len(e)]) + b'\x02\x01\x05' + e),
            ('seqof-element', univ.SequenceOf(componentType=c()), lambda e: bytes([0x30, len(e)]) + e),
            ('choice-alt', univ.Choice(componentType=namedtype.NamedTypes(namedtype.NamedType('n', univ.Integer()), namedtype.NamedType('s', c()))), lambda e: e),
        ]
        for lname, spec, wrap in layouts:
            for form, enc, must_accept in (('primitive', prim, True), ('segmented', cons, False), ('indefinite', indef, False)):
                data = wrap(enc)
                if len(data) > 127 + 2:
                    continue
                rep.evaluations += 1
                rep.count('string-classes')
                replay = {'kind': 'string-class', 'class': c.__name__, 'layout': lname, 'form': form, 'bytes': data.hex()}
                try:
                    der_decoder.decode(data, asn1Spec=spec)
                    ok = True
                except error.PyAsn1Error:
                    ok = False
                except Exception as e:  # noqa
                    rep.fail('noncanonical-leak:' + type(e).__name__, '%s (%s, %s) raised %s' % (c.__name__, lname, form, e), replay)
                    continue
                if ok and not must_accept:
                    rep.fail('noncanonical-accepted:constructed:der:spec:%s' % c.__name__,
                             'DER decoder guided by %s (%s) accepted the %s form %s' % (c.__name__, lname, form, data.hex()), replay)
                if not ok and must_accept:
                    rep.fail('canonical-refused:%s' % c.__name__, 'DER decoder guided by %s (%s) refused the canonical encoding %s' % (
                        c.__name__, lname, data.hex()), replay)


def check_open_type(rep, case, rng):
    """the restrictions hold inside a resolved open type too: the value as the inner value of
    SEQUENCE { id INTEGER, value [ [0] EXPLICIT ] ANY DEFINED BY id }, every rewrite of the inner encoding,
    decoded by the DER (CER for BOOLEAN) decoder with open type resolution on"""
    from pyasn1.type import univ, namedtype, opentype, tag
    from pyasn1 import error
    ie = codec.impl_encode('der', case.t, case.v, obj=case.fresh_obj())
    if ie[0] != 'ok':
        return
    inner = ie[1]
    try:
        rws = list(rewrites(case, inner))
    except wire.WireError:
        return
    if not rws:
        return
    for explicit in (False, True):
        any_spec = univ.Any()
        if explicit:
            any_spec = any_spec.subtype(explicitTag=tag.Tag(tag.tagClassContext, tag.tagFormatSimple, 0))
        ot = opentype.OpenType('id', {1: case.schema})
        outer = univ.Sequence(componentType=namedtype.NamedTypes(
            namedtype.NamedType('id', univ.Integer()), namedtype.NamedType('value', any_spec, openType=ot)))

        def frame(payload):
            if explicit:
                payload = b'\xa0' + wire.emit_len(len(payload)) + payload
            body = b'\x02\x01\x01' + payload
            return b'\x30' + wire.emit_len(len(body)) + body
        # the canonical encoding resolves (otherwise the shape is outside what open types support; not C15's matter)
        try:
            o, rest = codec.DEC['der'].decode(frame(inner), asn1Spec=outer, decodeOpenTypes=True)
            if rest or not gen.val_equiv(case.t, gen.abstract(case.t, o['value']), case.v):
                continue
        except Exception:  # noqa
            continue
        for kind, mutant, depth in rws:
            rep.count('open-type-rewrite=' + kind.split('-')[0])
            for dec in ['der'] + (['cer'] if kind.startswith('boolean') else []):
                replay = dict(case.replay, kind='open-type-rewrite', rewrite=kind, depth=depth, bytes=frame(mutant).hex(), decoder=dec,
                              explicit=explicit, inner_der=inner.hex())
                try:
                    codec.DEC[dec].decode(frame(mutant), asn1Spec=outer, decodeOpenTypes=True)
                    rep.fail('noncanonical-accepted-in-open-type:%s:%s' % (kind.split('-')[0], dec),
                             '%s decoder resolving an open type accepted a %s rewrite at depth %d of the inner value' % (dec.upper(), kind, depth), replay)
                except error.SubstrateUnderrunError:
                    rep.fail('noncanonical-underrun', 'complete non-canonical input reported as insufficient data', replay)
                except error.PyAsn1Error:
                    pass
                except Exception as e:  # noqa
                    rep.fail('noncanonical-leak:' + type(e).__name__, 'non-library exception on a %s rewrite inside an open type' % kind, replay)


def schemaless(dec, data):
    try:
        obj, rest = codec.DEC[dec].decode(data)
        return ('ok', obj, rest)
    except Exception as e:  # noqa
        return ('err', codec.classify(e))


def lenient_decoders_first(rep):
    """history before anything strict runs in this process: the BER decoder, with a guiding type, meets every string-like
    class, BOOLEAN and the containers - primitive and segmented forms, TRUE as 01 - so that whatever the decoders remember
    (per class, per type id, per tag) is filled by the lenient codec first"""
    import importlib
    from pyasn1.type import univ, namedtype
    from pyasn1.codec.ber import decoder as ber_decoder, encoder as ber_encoder
    classes = [univ.Boolean, univ.BitString, univ.OctetString]
    for modname in ('char', 'useful'):
        mod = importlib.import_module('pyasn1.type.' + modname)
        for nm in sorted(vars(mod)):
            c = getattr(mod, nm)
            if isinstance(c, type) and issubclass(c, univ.OctetString) and c not in classes and getattr(c, 'tagSet', None):
                classes.append(c)
    n = 0
    for c in classes:
        try:
            if c is univ.Boolean:
                forms = [bytes.fromhex('010101'), bytes.fromhex('0101ff')]
                spec = c()
            elif c is univ.BitString:
                forms = [bytes.fromhex('030204a0'), bytes.fromhex('2380030204a00000')]
                spec = c()
            else:
                spec = c()
                base = bytes(ber_encoder.encode(c('12'.encode() if c is univ.OctetString else '12')))
                forms = [base, bytes([base[0] | 0x20, 0x80, 0x04, 0x01, 0x31, 0x04, 0x01, 0x32, 0, 0])]
            for f in forms:
                for wrap in (spec, univ.Sequence(componentType=namedtype.NamedTypes(namedtype.NamedType('x', spec)))):
                    data = f if wrap is spec else bytes([0x30, len(f)]) + f
                    try:
                        ber_decoder.decode(data, asn1Spec=wrap)
                        n += 1
                    except Exception:  # noqa
                        pass
        except Exception:  # noqa
            continue
    rep.count('lenient-history-decodes', n)


def run(rep, tier, seed):
    common.prove(rep)
    rng = common.rng_for(seed, 'C15')
    drv = common.Driver()
    lenient_decoders_first(rep)
    # the strict BOOLEAN decoder is translated from the source on every run (gen/py2lean.py -> GenK.cerBool;
    # Props/C15.source_strict_boolean); the translation is run against the real method here
    from harness import kernels
    kernels.obligations(rep, ['cerBool', 'decodeLength'])
    kernels.check(rep, drv, seed, 200 if tier == 'quick' else 10000, which=('cerBool', 'decodeLength'))
    n = 500 if tier == 'quick' else 20000
    rep.rule = ('valid DER encodings of generated values x every element position and depth x single rewrites '
                '{definite->indefinite, primitive->segmented for each string type incl. BIT STRING, FF->01/7f/fe} decoded by the '
                'DER decoder (and CER for BOOLEAN) with and without the guiding type; non-trivial = rewritten element at depth>=1')
    rep.assumptions = ['ancestor lengths are recomputed minimally so that exactly one element is non-canonical']
    from harness import sexp_types
    check_every_string_class(rep)
    for ts, vs in CORPUS:
        t = sexp_types.ty_of_sexp(gen.parse_sexps(ts)[0])
        v = gen.val_of_sexp(gen.parse_sexps(vs)[0])
        case = engine.Case(t, v)
        rep.case('corpus ' + case.canon)
        check_case(rep, drv, case)
    for case in engine.gen_cases(rng, n, max_depth=3):
        if not engine.representable(case):
            continue
        rep.case(case.canon, nontrivial=gen.depth(case.t) >= 1,
                 sample={'type': gen.ty_sexp(case.t)[:300], 'value': gen.val_sexp(case.v)[:300]})
        check_case(rep, drv, case, rng)
        if len(case.canon) < 400:
            check_open_type(rep, case, rng)

    def check_one(c, drv, case, r):
        check_case(c, drv, case)
    engine.post_shrink(rep, drv, check_one)
    drv.close()


def replay(path):
    d = json.load(open(path))
    print(json.dumps(d, indent=1)[:6000])
    return 0
