"""Independent reader of BER framing used by the oracles (not pyasn1, not the Lean model):
identifier / length octets, element walk, structural predicates (stray end-of-octets region E1)."""
from harness import gen

CLS_BITS = {0: 'u', 0x40: 'a', 0x80: 'c', 0xC0: 'p'}


class WireError(Exception):
    pass


def read_ident(b, i):
    if i >= len(b):
        raise WireError('eof in identifier')
    o = b[i]
    i += 1
    cls = CLS_BITS[o & 0xC0]
    cons = bool(o & 0x20)
    num = o & 0x1F
    if num == 0x1F:
        num = 0
        while True:
            if i >= len(b):
                raise WireError('eof in long tag')
            o = b[i]
            i += 1
            num = (num << 7) | (o & 0x7F)
            if not o & 0x80:
                break
    return (cls, cons, num), i


def read_len(b, i):
    if i >= len(b):
        raise WireError('eof in length')
    o = b[i]
    i += 1
    if o < 0x80:
        return o, i
    if o == 0x80:
        return None, i
    n = o & 0x7F
    if i + n > len(b):
        raise WireError('eof in long length')
    return int.from_bytes(b[i:i + n], 'big'), i + n


def read_tlv(b, i=0):
    """-> (node, next index); node = dict(tag, cons, indef, start, hdr_end, end, children|content)"""
    start = i
    tag, i = read_ident(b, i)
    ln, i = read_len(b, i)
    node = {'tag': (tag[0], tag[2]), 'cons': tag[1], 'indef': ln is None, 'start': start, 'hdr_end': i}
    if ln is None:
        if not tag[1]:
            raise WireError('indefinite primitive')
        kids = []
        while True:
            if b[i:i + 2] == b'\x00\x00':
                i += 2
                break
            if i >= len(b):
                raise WireError('eof before end-of-octets')
            k, i = read_tlv(b, i)
            kids.append(k)
        node['children'] = kids
    else:
        if i + ln > len(b):
            raise WireError('eof in contents')
        if tag[1]:
            kids = []
            j = i
            while j < i + ln:
                k, j = read_tlv(b[:i + ln], j)
                kids.append(k)
            node['children'] = kids
        else:
            node['content'] = bytes(b[i:i + ln])
        i += ln
    node['end'] = i
    return node, i


def read_all(b):
    out = []
    i = 0
    while i < len(b):
        n, i = read_tlv(b, i)
        out.append(n)
    return out


NO_INDEF_KINDS = ('bool', 'int', 'enum', 'null', 'oid', 'real')


def e1_applies(t, v):
    """does encoding (t, v) in an indefinite-length mode hit the stray end-of-octets region (finding E1):
    an EXPLICIT tag directly over a scalar whose encoder has supportIndefLenMode = False"""
    if v is not None and v[0] == 'absent':
        return False
    k = t[0]
    if k == 'tag':
        if t[1] == 'e' and gen.base_of(t)[0] in NO_INDEF_KINDS and len(gen.tags_of(t)) >= 2:
            return True
        return e1_applies(t[4], v)
    if k in ('seq', 'set'):
        for (kind, dflt, ft), fv in zip(t[1], v[1]):
            if kind == 'd' and fv == dflt:
                continue
            if e1_applies(ft, fv):
                return True
        return False
    if k in ('seqof', 'setof'):
        return any(e1_applies(t[1], x) for x in v[1])
    if k == 'choice':
        return e1_applies(t[1][v[1]][2], v[2])
    return False


# ----------------------------------------------------------------------------- writer (for rewrites)

CLS_VAL = {'u': 0, 'a': 0x40, 'c': 0x80, 'p': 0xC0}


def emit_ident(cls, cons, num):
    first = CLS_VAL[cls] | (0x20 if cons else 0)
    if num < 31:
        return bytes([first | num])
    out = [num & 0x7F]
    num >>= 7
    while num:
        out.insert(0, 0x80 | (num & 0x7F))
        num >>= 7
    return bytes([first | 0x1F] + out)


def emit_len(n):
    if n < 0x80:
        return bytes([n])
    b = n.to_bytes((n.bit_length() + 7) // 8, 'big')
    return bytes([0x80 | len(b)]) + b


def emit(node):
    """serialise a (possibly rewritten) tree from read_tlv; ancestors get minimal definite lengths"""
    cls, num = node['tag']
    if node.get('raw') is not None:
        return node['raw']
    if node['cons']:
        body = b''.join(emit(c) for c in node['children'])
        if node.get('indef'):
            return emit_ident(cls, True, num) + b'\x80' + body + b'\x00\x00'
        return emit_ident(cls, True, num) + emit_len(len(body)) + body
    return emit_ident(cls, False, num) + emit_len(len(node['content'])) + node['content']


def all_nodes(node, depth=0):
    yield node, depth
    for c in node.get('children', []):
        for x in all_nodes(c, depth + 1):
            yield x
