"""parse the s-expression form of a type back into the tuple form of harness/gen.py"""
from harness import gen


def ty_of_sexp(x):
    if isinstance(x, str):
        return (x,)
    h = x[0]
    if h == 'str':
        return ('str', int(x[1]))
    if h in ('seq', 'set', 'choice'):
        return (h, [field_of(f) for f in x[1:]])
    if h in ('seqof', 'setof'):
        return (h, ty_of_sexp(x[1]))
    if h == 'tag':
        return ('tag', x[1], x[2], int(x[3]), ty_of_sexp(x[4]))
    raise ValueError(x)


def field_of(f):
    if f[0] == 'd':
        return ('d', gen.val_of_sexp(f[1]), ty_of_sexp(f[2]))
    return (f[0], None, ty_of_sexp(f[1]))
