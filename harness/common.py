"""Plumbing shared by every check: Lean build + axiom audit, driver client, evidence, replays,
known findings, verdict (DESIGN §2.2, §8)."""
import fcntl
import hashlib
import json
import os
import random
import re
import subprocess
import sys
import time

VERIF = os.path.dirname(os.path.dirname(os.path.abspath(__file__)))
REPO = os.environ.get('VERIF_REPO', '/repo')
# trial runs against a scratch copy (seeded changes) write their evidence and replays elsewhere
OUT = os.environ.get('VERIF_EVIDENCE_DIR') or VERIF
LEAN = os.path.join(VERIF, 'lean')
DRIVER = os.path.join(LEAN, '.lake', 'build', 'bin', 'driver')
ALLOWED_AXIOMS = {'propext', 'Classical.choice', 'Quot.sound'}
FORBIDDEN = re.compile(r'\bsorry\b|\badmit\b|^axiom\s|native_decide|bv_decide|implemented_by|\bunsafe\s|maxHeartbeats\s+0',
                       re.M)

if REPO not in sys.path:
    sys.path.insert(0, REPO)
os.environ.setdefault('PYTHONHASHSEED', '0')


class Hang(BaseException):
    """the code under test did not return (raised by the watchdog timer)"""


CASE_DEADLINE = int(os.environ.get('VERIF_CASE_DEADLINE', '60'))


def _on_alarm(signum, frame):
    raise Hang()


def arm_watchdog():
    import signal
    try:
        signal.signal(signal.SIGALRM, _on_alarm)
        signal.alarm(CASE_DEADLINE)
    except ValueError:      # not in the main thread
        pass


def disarm_watchdog():
    import signal
    try:
        signal.alarm(0)
    except ValueError:
        pass


class MachineryError(Exception):
    """the machinery itself is broken (exit 2, never a VIOLATION)"""


def seed_from_env():
    try:
        return int(os.environ.get('VERIF_SEED', '0'))
    except ValueError:
        return 0


def rng_for(seed, *salt):
    h = hashlib.sha256(repr((seed,) + salt).encode()).digest()
    return random.Random(int.from_bytes(h[:8], 'big'))


# ----------------------------------------------------------------------------- Lean side

class _Lock(object):
    def __init__(self, name):
        d = os.path.join(VERIF, '.locks')
        os.makedirs(d, exist_ok=True)
        self.path = os.path.join(d, name)

    def __enter__(self):
        self.f = open(self.path, 'w')
        fcntl.flock(self.f, fcntl.LOCK_EX)
        return self

    def __exit__(self, *a):
        fcntl.flock(self.f, fcntl.LOCK_UN)
        self.f.close()


def run(cmd, cwd=None, timeout=3600, env=None):
    p = subprocess.run(cmd, cwd=cwd, stdout=subprocess.PIPE, stderr=subprocess.STDOUT, timeout=timeout,
                       env=env, universal_newlines=True)
    return p.returncode, p.stdout


def regenerate():
    """translator: /repo -> lean/Asn1/Generated.lean (written only when changed)"""
    rc, out = run([sys.executable, os.path.join(VERIF, 'gen', 'extract.py')], cwd=VERIF)
    if rc != 0:
        raise MachineryError('gen/extract.py failed:\n' + out)
    try:
        info = json.loads(out.strip().splitlines()[-1])
    except Exception:
        info = {}
    # second translator: the computational kernels, source -> lean/Asn1/GenKernels.lean
    rc, out = run([sys.executable, os.path.join(VERIF, 'gen', 'py2lean.py')], cwd=VERIF)
    if rc != 0:
        raise MachineryError('gen/py2lean.py failed:\n' + out)
    try:
        info['kernels'] = json.loads(out.strip().splitlines()[-1]).get('kernels', {})
    except Exception:
        info['kernels'] = {}
    return info


def lake_build(targets):
    """returns (ok, log)"""
    with _Lock('lake'):
        rc, out = run(['lake', 'build'] + list(targets), cwd=LEAN)
    return rc == 0, out


def strip_comments(src):
    src = re.sub(r'/-.*?-/', '', src, flags=re.S)
    src = re.sub(r'--.*', '', src)
    return src


def theorem_names(path):
    src = strip_comments(open(path).read())
    ns = []
    names = []
    for line in src.splitlines():
        m = re.match(r'\s*namespace\s+(\S+)', line)
        if m:
            ns.append(m.group(1))
            continue
        m = re.match(r'\s*end\s+(\S+)', line)
        if m and ns and ns[-1] == m.group(1):
            ns.pop()
            continue
        m = re.match(r'\s*(?:private\s+|protected\s+)?theorem\s+(\S+)', line)
        if m:
            names.append('.'.join(ns + [m.group(1)]))
    return names


def lean_sources(modules):
    """transitive project-local imports of the given modules -> list of file paths"""
    seen = {}
    todo = list(modules)
    while todo:
        m = todo.pop()
        if m in seen:
            continue
        p = os.path.join(LEAN, m.replace('.', '/') + '.lean')
        if not os.path.exists(p):
            continue
        seen[m] = p
        for line in open(p):
            mm = re.match(r'\s*import\s+(\S+)', line)
            if mm and mm.group(1).split('.')[0] in ('Asn1', 'Proofs', 'Props'):
                todo.append(mm.group(1))
    return seen


def audit(prop_module):
    """grep for forbidden constructs and collect `#print axioms` of every theorem of the Props module.
    returns dict(theorems=[...], axioms={name: [..]}, bad=[...])"""
    srcs = lean_sources([prop_module])
    bad = []
    for m, p in sorted(srcs.items()):
        code = strip_comments(open(p).read())
        for hit in FORBIDDEN.finditer(code):
            bad.append('%s: %s' % (m, hit.group(0).strip()))
    path = srcs.get(prop_module)
    names = theorem_names(path) if path else []
    axioms = {}
    if names:
        d = os.path.join(LEAN, '.lake', 'audit')
        os.makedirs(d, exist_ok=True)
        f = os.path.join(d, prop_module.replace('.', '_') + '.lean')
        with open(f, 'w') as fh:
            fh.write('import %s\n' % prop_module)
            for n in names:
                fh.write('#print axioms %s\n' % n)
        rc, out = run(['lake', 'env', 'lean', f], cwd=LEAN)
        if rc != 0:
            bad.append('axiom audit failed: ' + out[-2000:])
        for m in re.finditer(r"'([^']+)' depends on axioms: \[([^\]]*)\]", out.replace('\n', ' ')):
            axioms[m.group(1)] = [a.strip() for a in m.group(2).split(',') if a.strip()]
        for m in re.finditer(r"'([^']+)' does not depend on any axioms", out):
            axioms[m.group(1)] = []
        for n in names:
            if n not in axioms:
                bad.append('no axiom report for ' + n)
        for n, ax in axioms.items():
            extra = set(ax) - ALLOWED_AXIOMS
            if extra:
                bad.append('%s uses axioms %s' % (n, sorted(extra)))
    return {'theorems': names, 'axioms': axioms, 'bad': bad}


class Driver(object):
    """line protocol client for the compiled Lean model"""

    def __init__(self):
        if not os.path.exists(DRIVER):
            raise MachineryError('driver not built: ' + DRIVER)
        self.p = subprocess.Popen([DRIVER], stdin=subprocess.PIPE, stdout=subprocess.PIPE,
                                  universal_newlines=True, bufsize=1)
        self.n = 0

    def ask(self, line):
        self.n += 1
        self.p.stdin.write(line + '\n')
        self.p.stdin.flush()
        out = self.p.stdout.readline()
        if not out:
            raise MachineryError('driver died on: ' + line[:300])
        return out.rstrip('\n')

    def ask_many(self, lines):
        return [self.ask(l) for l in lines]

    def close(self):
        try:
            self.p.stdin.close()
            self.p.wait(timeout=5)
        except Exception:
            self.p.kill()


# ----------------------------------------------------------------------------- findings / verdict

def load_known():
    p = os.path.join(VERIF, 'known_findings.json')
    if not os.path.exists(p):
        return []
    return json.load(open(p)).get('findings', [])


class Report(object):
    """collects what one run of one property check did and turns it into evidence + verdict"""

    def __init__(self, prop, tier, seed, level='proof'):
        self.prop = prop
        self.tier = tier
        self.seed = seed
        self.level = level
        self.t0 = time.time()
        self.obligations = 0
        self.discharged = 0
        self.theorems = []
        self.axioms = {}
        self.build_log_tail = ''
        self.proof_broken = []          # names / reasons
        self.evaluations = 0
        self.distinct = set()
        self.samples = []
        self.dist = {}
        self.failures = []              # dict(signature, what, replay(dict)); at most 3 per signature
        self.failure_counts = {}
        self.corr_checked = 0
        self.corr_disagreements = []
        self.notes = []
        self.drift = []
        self.assumptions = []
        self.rule = ''
        self.known = [k for k in load_known() if k.get('property') == prop and k.get('status') == 'finding']
        self.known_seen = {}
        self.extra = {}

    # -- counting
    def count(self, key, n=1):
        self.dist[key] = self.dist.get(key, 0) + n

    def case(self, canon, nontrivial=True, sample=None):
        # watchdog: the code under test must come back; a case that does not finish within CASE_DEADLINE seconds
        # is reported as a hang (see `check`), with this case as the replay
        self.last_case = canon
        self.last_sample = sample
        arm_watchdog()
        self.evaluations += 1
        if nontrivial:
            self.distinct.add(hashlib.sha1(canon.encode()).hexdigest()[:16])
        if sample is not None and len(self.samples) < 6:
            self.samples.append(sample)

    def fail(self, signature, what, replay):
        """a property failure observed on the real code"""
        for k in self.known:
            if re.fullmatch(k['signature'], signature):
                self.known_seen.setdefault(k['signature'], (what, replay))
                return
        n = self.failure_counts.get(signature, 0)
        self.failure_counts[signature] = n + 1
        if n < 3 and len(self.failures) < 200:
            self.failures.append({'signature': signature, 'what': what, 'replay': replay})

    def disagree(self, op, case, model, impl):
        if len(self.corr_disagreements) < 50:
            self.corr_disagreements.append({'op': op, 'case': case, 'model': model, 'impl': impl})

    # -- finish
    def finish(self):
        disarm_watchdog()
        wall = time.time() - self.t0
        os.makedirs(os.path.join(OUT, 'evidence'), exist_ok=True)
        os.makedirs(os.path.join(OUT, 'replays'), exist_ok=True)
        lines = []
        rc = 0
        for sig, (what, replay) in sorted(self.known_seen.items()):
            lines.append('KNOWN-FINDING: property=%s %s (%s)' % (self.prop, sig, what if len(what) <= 400 else what[:400] + '...'))
        violations = 0
        if self.failures:
            f = self.failures[0]
            path = self._write_replay(f['signature'], {'kind': 'failing-input', 'failures': self.failures[:60],
                                                       'failure_counts': self.failure_counts})
            lines.append('VIOLATION property=%s replay=%s' % (self.prop, path))
            violations = sum(self.failure_counts.values())
            rc = 1
        elif self.proof_broken or self.corr_disagreements:
            what = {'kind': 'no-failing-input-found',
                    'broken_obligations': self.proof_broken,
                    'correspondence_disagreements': self.corr_disagreements[:10],
                    'build_log_tail': self.build_log_tail[-4000:]}
            path = self._write_replay('unproved', what)
            lines.append('VIOLATION property=%s replay=%s no-failing-input-found' % (self.prop, path))
            violations = 1
            rc = 1
        cov = {
            'obligations': self.obligations,
            'discharged': self.discharged,
            'checker_cmd': 'cd lean && lake build Props.%s && lake env lean .lake/audit/Props_%s.lean  (#print axioms per theorem)' % (self.prop, self.prop),
            'trusted_base': ['Lean 4.33.0 kernel', 'axioms: ' + ', '.join(sorted({a for v in self.axioms.values() for a in v}) or ['none']),
                             'gen/extract.py (translator: tables, flags, call-site audit)',
                             'gen/py2lean.py + lean/Asn1/PyLite.lean (translator of the octet kernels and its run-time library; compared with the code and with CPython by harness/kernels.py)',
                             'harness correspondence (model = code on the cases run)',
                             'lean compiler for the driver'],
            'theorems': self.theorems,
            'evaluations': max(self.evaluations, 1),
            'distinct_nontrivial': len(self.distinct),
            'rule': self.rule,
            'samples': self.samples or ['(no sampled cases: proof obligations only)'],
            'distribution': self.dist,
            'correspondence_cases': self.corr_checked,
            'correspondence_disagreements': len(self.corr_disagreements),
            'source_digest_drift': self.drift,
            'known_findings_observed': sorted(self.known_seen),
            'notes': self.notes,
        }
        cov.update(self.extra)
        ev = {'property_id': self.prop, 'tier': self.tier, 'seed': self.seed, 'level': self.level,
              'coverage': cov, 'assumptions': self.assumptions, 'wall_s': round(wall, 2), 'violations': violations}
        with open(os.path.join(OUT, 'evidence', self.prop + '.json'), 'w') as fh:
            json.dump(ev, fh, indent=1, sort_keys=True, default=str)
        for l in lines:
            print(l)
        print('%s tier=%s seed=%d obligations=%d/%d evaluations=%d distinct=%d corr=%d wall=%.1fs -> %s' % (
            self.prop, self.tier, self.seed, self.discharged, self.obligations, self.evaluations, len(self.distinct),
            self.corr_checked, wall, 'FAIL' if rc else 'ok'))
        return rc

    def _write_replay(self, sig, payload):
        payload = dict(payload)
        payload.update({'property': self.prop, 'seed': self.seed, 'tier': self.tier, 'signature': sig})
        h = hashlib.sha1(json.dumps(payload, sort_keys=True, default=str).encode()).hexdigest()[:10]
        path = os.path.join(OUT, 'replays', '%s-%s.json' % (self.prop, h))
        with open(path, 'w') as fh:
            json.dump(payload, fh, indent=1, sort_keys=True, default=str)
        return os.path.relpath(path, VERIF)


def prove(report, prop_module=None):
    """steps 1 of DESIGN §2.2: regenerate, build, audit. Fills the proof part of the report."""
    prop_module = prop_module or ('Props.' + report.prop)
    info = regenerate()
    report.drift = info.get('drift', [])
    report.kernel_status = info.get('kernels', {})
    ok, log = lake_build([prop_module, 'driver'])
    report.build_log_tail = log[-6000:]
    path = os.path.join(LEAN, prop_module.replace('.', '/') + '.lean')
    names = theorem_names(path) if os.path.exists(path) else []
    report.theorems = names
    report.obligations = len(names) + info.get('generated_obligations', {}).get(report.prop, 0)
    if not ok:
        errs = re.findall(r'error: ([^\n]*)', log)
        report.proof_broken.append('lake build %s failed: %s' % (prop_module, '; '.join(errs[:5])))
        # the driver may still be buildable from the model alone
        ok2, _ = lake_build(['driver'])
        if not ok2 and not os.path.exists(DRIVER):
            raise MachineryError('model does not build:\n' + log[-3000:])
        report.discharged = 0
        return False
    a = audit(prop_module)
    report.axioms = a['axioms']
    if a['bad']:
        report.proof_broken.extend(a['bad'])
        report.discharged = 0
        return False
    if getattr(report, 'tier', 'quick') == 'thorough':
        # independent re-check of the compiled proofs (leanchecker replays every declaration of the module and of
        # what it imports through the kernel, without trusting the elaborator's .olean files)
        ok3, log3 = leanchecker(prop_module)
        report.extra['leanchecker'] = 'ok' if ok3 else log3[-400:]
        if not ok3:
            report.proof_broken.append('leanchecker rejects %s: %s' % (prop_module, log3[-300:]))
            report.discharged = 0
            return False
    report.discharged = report.obligations
    return True


def leanchecker(module):
    try:
        r = subprocess.run(['lake', 'env', 'leanchecker', module], cwd=LEAN, stdout=subprocess.PIPE, stderr=subprocess.STDOUT,
                           universal_newlines=True, timeout=1800)
        return r.returncode == 0, r.stdout
    except FileNotFoundError:
        return True, 'leanchecker not installed'
    except subprocess.TimeoutExpired:
        return False, 'leanchecker timed out'

