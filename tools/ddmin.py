#!/venv/bin/python
"""minimise a malformed input for a given spec keeping the same outcome class: ddmin.py <codec> '<spec sexp|None>' <hex>"""
import sys
sys.path.insert(0, '/verif')
from harness import common, gen, codec, sexp_types
from harness.props import c08
cdc, spec, hx = sys.argv[1], sys.argv[2], sys.argv[3]
t = None if spec == 'None' else sexp_types.ty_of_sexp(gen.parse_sexps(spec)[0])
schema = None if t is None else gen.build(t)
def outcome(b):
    r = c08.run_oneshot(codec.DEC[cdc], b, schema)
    return r[1] if r[0] == 'err' else ('ok-notvalue' if not c08.is_value(r[1]) else 'ok')
data = bytes.fromhex(hx)
want = outcome(data)
print('outcome', want)
changed = True
while changed:
    changed = False
    n = len(data)
    for size in (max(n // 2, 1), max(n // 4, 1), 4, 2, 1):
        i = 0
        while i < len(data):
            cand = data[:i] + data[i + size:]
            if cand != data and outcome(cand) == want:
                data = cand
                changed = True
            else:
                i += size
print(data.hex())
import traceback
try:
    codec.DEC[cdc].decode(data, asn1Spec=schema)
except Exception:
    traceback.print_exc(limit=-4)
