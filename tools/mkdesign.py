#!/usr/bin/env python3
"""regenerate the generated part of DESIGN.md (between the GENERATED markers): theorem inventory per
property, defect ledger with dispositions (from known_findings.json), seeded changes and the checks
that catch them (from seeded/*/meta.json)."""
import json, os, re, glob, collections
V = os.path.dirname(os.path.dirname(os.path.abspath(__file__)))
out = []
# ---- theorem inventory
out.append('### 13.5 Theorem inventory (generated from `lean/Props/Cxx.lean`)\n')
out.append('Every name below is a theorem whose axioms are audited on each run of the check of that property.\n')
for f in sorted(glob.glob(os.path.join(V, 'lean/Props/C*.lean'))):
    pid = os.path.basename(f)[:-5]
    names = re.findall(r'^theorem\s+(\S+)', open(f).read(), re.M)
    out.append('* **%s** (%d): %s' % (pid, len(names), ', '.join('`%s`' % n for n in names)))
out.append('')
# ---- ledger
k = json.load(open(os.path.join(V, 'known_findings.json')))['findings']
fin = collections.OrderedDict()
for e in k:
    if e['status'] == 'finding':
        fin.setdefault(e['signature'], {'props': set(), 'what': e['what']})['props'].add(e['property'])
out.append('### 13.6 Defect ledger as built (generated from `known_findings.json`)\n')
out.append('**Recorded findings** (genuine defects kept, each check prints `KNOWN-FINDING` for them and alarms on anything else):\n')
for sig, d in fin.items():
    out.append('* `%s` — %s — %s' % (sig, ', '.join(sorted(d['props'])), d['what'].replace('\n', ' ')))
out.append('')
fixed = collections.OrderedDict()
for e in k:
    if e['status'] == 'fixed':
        key = e.get('commit_subject') or e.get('commit')
        fixed.setdefault(key, {'props': set(), 'commit': e.get('commit'), 'what': e['what']})['props'].add(e['property'])
out.append('**Repaired** (%d `fix:` commits in /repo; a fixed entry suppresses nothing):\n' % len(fixed))
for subj, d in fixed.items():
    out.append('* %s — `%s` — %s' % (', '.join(sorted(d['props'])), d['commit'], subj))
out.append('')
# ---- seeded
out.append('### 13.7 Seeded changes and the checks that catch them (generated from `seeded/*/meta.json`)\n')
out.append('| seeded change | property | needs | caught by |')
out.append('|---|---|---|---|')
for m in sorted(glob.glob(os.path.join(V, 'seeded/*/meta.json'))):
    d = json.load(open(m))
    name = os.path.basename(os.path.dirname(m))
    needs = (d.get('needs') or '').replace('\n', ' ').replace('|', '/')
    if len(needs) > 160:
        needs = needs[:157] + '...'
    cb = ', '.join(d.get('caught_by') or []) or '—'
    if d.get('caught_how'):
        cb += ' (%s)' % d['caught_how']
    out.append('| `%s` | %s | %s | %s |' % (name, d.get('property'), needs, cb))
out.append('')
out.append('**Checks strengthened because a seeded change was missed (or only seen as a broken correspondence) at first:**\n')
for m in sorted(glob.glob(os.path.join(V, 'seeded/*/meta.json'))):
    d = json.load(open(m))
    if d.get('strengthened'):
        out.append('* `%s` — %s' % (os.path.basename(os.path.dirname(m)), d['strengthened'].replace('\n', ' ')))
out.append('')
out.append('The seeded changes were produced by fresh sub-agents that were given only the text of one property and a scratch '
           'worktree of /repo (twenty-three rounds of 20 agents, exact duplicates of earlier changes not filed; from round 3 on each agent was pointed at one of the mechanisms the property is anchored in). '
           'Each was confirmed by `tools/confirm_seed.py` (demo passes on HEAD, patch applies, pinned suite 1149 passed, demo fails) and '
           'run against the checks with `tools/try_mutation2.sh` / `try_mutation3.sh` (scratch worktree + `VERIF_REPO`; the latter in a private copy of /verif); none is ever committed to /repo.')
out.append('')
text = '\n'.join(out)
p = os.path.join(V, 'DESIGN.md')
s = open(p).read()
b, e = '<!-- BEGIN GENERATED -->', '<!-- END GENERATED -->'
if b in s:
    s = s[:s.index(b) + len(b)] + '\n' + text + '\n' + s[s.index(e):]
else:
    s = s.rstrip() + '\n\n' + b + '\n' + text + '\n' + e + '\n'
open(p, 'w').write(s)
print('generated %d lines' % len(out))
