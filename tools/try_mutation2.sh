#!/bin/bash
# usage: try_mutation2.sh <patch.diff> <check id>...
# applies the patch in a scratch worktree of /repo HEAD (outside /repo and /verif), runs the checks against it
# through VERIF_REPO, removes the worktree.  Use this instead of try_mutation.sh while other jobs use /repo.
patch=$(readlink -f "$1"); shift
wt=$(mktemp -d /tmp/mutwt_XXXXXX); rmdir "$wt"
git -C /repo worktree add -q --detach "$wt" HEAD || exit 2
cd "$wt" || exit 2
if ! git apply "$patch"; then echo "PATCH DOES NOT APPLY"; git -C /repo worktree remove --force "$wt"; exit 2; fi
cd /verif
for c in "$@"; do VERIF_REPO="$wt" VERIF_EVIDENCE_DIR=/tmp/mut_evidence ./check $c 2>&1 | grep -v KNOWN | tail -2; done
git -C /repo worktree remove --force "$wt"; rm -rf "$wt"
# restore the generated tables for /repo
(cd /verif && /venv/bin/python gen/extract.py >/dev/null 2>&1; /venv/bin/python gen/py2lean.py >/dev/null 2>&1)
