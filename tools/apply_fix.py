#!/usr/bin/env python3
"""apply (file, old, new) replacement triples to /repo, run the pinned suite, commit as one `fix:` commit.
usage: apply_fix.py <triples.py> <index,index,...> <commit message file>"""
import subprocess, sys
ns = {}
exec(open(sys.argv[1]).read(), ns)
idx = [int(i) for i in sys.argv[2].split(',')]
msg = open(sys.argv[3]).read()
for i in idx:
    f, old, new = ns['PATCHES'][i]
    p = '/repo/' + f
    s = open(p).read()
    assert s.count(old) >= 1, (f, 'old text not found')
    cnt = s.count(old)
    s = s.replace(old, new)
    open(p, 'w').write(s)
    print('patched', f, 'x%d' % cnt)
r = subprocess.run('cd /repo && /venv/bin/python -m pytest -q -p no:cacheprovider 2>&1 | tail -3', shell=True, stdout=subprocess.PIPE, universal_newlines=True)
print(r.stdout)
if '1149 passed' not in r.stdout:
    subprocess.run('cd /repo && git checkout -- .', shell=True)
    sys.exit('tests not green; reverted')
subprocess.run(['git', '-C', '/repo', 'commit', '-qam', msg], check=True)
print(subprocess.run('git -C /repo log --oneline | head -1', shell=True, stdout=subprocess.PIPE, universal_newlines=True).stdout)
