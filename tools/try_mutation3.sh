#!/bin/bash
# usage: try_mutation3.sh <patch.diff> <check id>...
# like try_mutation2.sh, but the checks run in a private copy of /verif (under /tmp/verif_mut, build output
# included), so that work going on in /verif/lean is neither disturbed by the regenerated tables of the
# changed tree nor disturbs the run.  Refresh the copy with: tools/try_mutation3.sh --sync
if [ "$1" = "--sync" ]; then
  mkdir -p /tmp/verif_mut && rsync -a --delete --exclude replays --exclude evidence /verif/ /tmp/verif_mut/ && mkdir -p /tmp/verif_mut/evidence /tmp/verif_mut/replays
  exit 0
fi
[ -d /tmp/verif_mut/lean/.lake ] || "$0" --sync
patch=$(readlink -f "$1"); shift
wt=$(mktemp -d /tmp/mutwt_XXXXXX); rmdir "$wt"
git -C /repo worktree add -q --detach "$wt" HEAD || exit 2
cd "$wt" || exit 2
if ! git apply "$patch"; then echo "PATCH DOES NOT APPLY"; git -C /repo worktree remove --force "$wt"; exit 2; fi
cd /tmp/verif_mut
for c in "$@"; do VERIF_REPO="$wt" VERIF_EVIDENCE_DIR=/tmp/mut_evidence ./check $c 2>&1 | grep -v KNOWN | tail -2; done
git -C /repo worktree remove --force "$wt"; rm -rf "$wt"
