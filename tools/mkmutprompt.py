#!/usr/bin/env python3
"""write the self-contained prompt for a mutation sub-agent: tools/mkmutprompt.py <Cxx> <worktree> <outdir>
The prompt carries the text of the property only (nothing from /verif)."""
import json, os, sys
pid, wt, out = sys.argv[1:4]
focus = int(sys.argv[4]) if len(sys.argv) > 4 else None
here = os.path.dirname(os.path.abspath(__file__))
prop = None
for l in open(os.path.join(here, '..', 'properties.jsonl')):
    d = json.loads(l)
    if d['id'] == pid:
        prop = d
a = prop['anchors']
text = '''%s — %s

STATEMENT: %s

QUANTIFIER: %s

WHY TESTS CANNOT SETTLE IT: %s

ANCHORS (files): %s
MECHANISMS: %s
''' % (pid, prop['title'], prop['statement'], prop['quantifier']['text'], prop['why_tests_cant'],
       ', '.join(a['files']), '; '.join('%s [%s]' % (m['name'], m['where']) for m in a['mechanism']))
if focus is not None:
    m = a['mechanism'][focus % len(a['mechanism'])]
    text += '''
FOCUS FOR THIS ASSIGNMENT: make your change in or around this mechanism (other people are covering the others): %s [%s]
''' % (m['name'], m['where'])
taken_file = os.environ.get('MUT_TAKEN')
if taken_file and os.path.exists(taken_file):
    items = json.load(open(taken_file)).get(pid, [])
    if items:
        text += '''
ALREADY TAKEN by other people for this property (summaries of their changes) - do something DIFFERENT, in a different function or a different mechanism, not a variation of one of these:
%s
''' % '\n'.join(items)
tpl = open(os.path.join(here, 'mutprompt.tpl')).read()
os.makedirs(out, exist_ok=True)
open(os.path.join(out, 'prompt.txt'), 'w').write(tpl.replace('__WT__', wt).replace('__OUT__', out).replace('__PROPERTY__', text))
print(os.path.join(out, 'prompt.txt'))
