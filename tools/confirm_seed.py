#!/usr/bin/env python3
"""confirm a seeded change in a scratch worktree of /repo HEAD and file it under /verif/seeded/<name>/
usage: confirm_seed.py <name> <srcdir with patch.diff, demo.py, meta.json> <property> [caught-by ...]"""
import json, os, shutil, subprocess, sys, tempfile
name, src, prop = sys.argv[1], sys.argv[2], sys.argv[3]
caught = sys.argv[4:]
def sh(cmd, cwd=None):
    r = subprocess.run(cmd, shell=True, cwd=cwd, stdout=subprocess.PIPE, stderr=subprocess.STDOUT, universal_newlines=True)
    return r.returncode, r.stdout
wt = tempfile.mkdtemp(prefix='seed_wt_'); os.rmdir(wt)
rc, out = sh('git -C /repo worktree add -q --detach %s HEAD' % wt)
assert rc == 0, out
res = {}
try:
    shutil.copy(os.path.join(src, 'demo.py'), os.path.join(wt, '_demo.py'))
    rc, out = sh('PYTHONPATH=%s /venv/bin/python _demo.py' % wt, cwd=wt)
    res['demo_unmodified'] = 'PASS' if rc == 0 else 'FAIL(rc=%d)' % rc
    rc, out = sh('git apply %s' % os.path.join(src, 'patch.diff'), cwd=wt)
    res['applies'] = rc == 0
    if rc == 0:
        rc, out = sh('/venv/bin/python -m pytest -q -p no:cacheprovider --ignore=_demo.py', cwd=wt)
        res['suite'] = out.strip().splitlines()[-1]
        rc, out = sh('PYTHONPATH=%s /venv/bin/python _demo.py' % wt, cwd=wt)
        res['demo_modified'] = 'PASS' if rc == 0 else 'FAIL'
        res['demo_output_tail'] = out.strip().splitlines()[-3:]
finally:
    sh('git -C /repo worktree remove --force %s' % wt)
    shutil.rmtree(wt, ignore_errors=True)
print(json.dumps(res, indent=1))
ok = res.get('applies') and res.get('demo_unmodified') == 'PASS' and res.get('demo_modified') == 'FAIL' and '1149 passed' in res.get('suite', '')
if not ok:
    sys.exit('NOT CONFIRMED')
dst = os.path.join('/verif/seeded', name)
os.makedirs(dst, exist_ok=True)
shutil.copy(os.path.join(src, 'patch.diff'), dst)
shutil.copy(os.path.join(src, 'demo.py'), dst)
meta = {}
try:
    meta = json.load(open(os.path.join(src, 'meta.json')))
except Exception:
    pass
meta.update({'property': prop, 'confirmed': res, 'repo_head_at_confirmation': subprocess.run('git -C /repo rev-parse --short HEAD', shell=True, stdout=subprocess.PIPE, universal_newlines=True).stdout.strip(),
             'ran': 'scratch worktree of /repo HEAD: demo PASS; git apply patch.diff; pytest 1149 passed; demo FAIL; worktree removed. Then in /repo: git apply, ./check <ids>, git apply -R.',
             'caught_by': caught})
json.dump(meta, open(os.path.join(dst, 'meta.json'), 'w'), indent=1)
print('filed', dst)
