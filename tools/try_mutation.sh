#!/bin/bash
# usage: try_mutation.sh <patch.diff> <check id>...   — applies the patch to /repo, runs the checks, undoes it
patch=$1; shift
cd /repo || exit 2
if ! git apply --check "$patch" 2>/dev/null; then echo "PATCH DOES NOT APPLY"; exit 2; fi
files=$(git apply --numstat "$patch" | awk '{print $3}')
git apply "$patch"
cd /verif
for c in "$@"; do ./check $c 2>&1 | grep -v KNOWN | tail -2; done
cd /repo && git apply -R "$patch"
echo "undone: $(git status --short | tr '\n' ' ')"
