#!/usr/bin/env python3
"""Regenerate MANIFEST.json from tools/manifest_checks.json (one entry per claimed property)."""
import json, os
HERE = os.path.dirname(os.path.dirname(os.path.abspath(__file__)))
props = [json.loads(l) for l in open(os.path.join(HERE, 'properties.jsonl'))]
claimed = json.load(open(os.path.join(HERE, 'tools', 'manifest_checks.json')))
checks = []
na = []
for p in props:
    pid = p['id']
    c = claimed.get(pid)
    if c is None or c.get('not_applicable'):
        na.append({'property_id': pid, 'reason': (c or {}).get('not_applicable', 'check not built yet in this stage (see DESIGN.md §11 build order)')})
        continue
    checks.append({
        'property_id': pid,
        'quick_cmd': './check %s --tier quick' % pid,
        'thorough_cmd': './check %s --tier thorough' % pid,
        'evidence_file': 'evidence/%s.json' % pid,
        'replay_cmd_template': './check %s --replay {path}' % pid,
        'engine': 'lean4-model+correspondence',
        'level_claimed': {'category': 'proof', 'text': c['text'], 'design_ref': 'DESIGN.md §5 %s' % pid},
        'level_note': c['note'],
        'technique': c.get('technique', 'Lean 4 theorems about an executable model; model tied to the source by a translator (generated tables) and a differential correspondence check'),
    })
m = {
    'version': 1,
    'setup_cmd': 'cd lean && lake build',
    'hooks': {'guard': 'PYASN1_VERIF', 'enable': 'no source hooks: all observation is done from outside (stream doubles, recorders, model traces)',
              'baseline_off_cmd': 'cd /repo && /venv/bin/python -m pytest -ra -q -p no:cacheprovider --timeout=900 --continue-on-collection-errors',
              'source_commits': [], 'add_only': True},
    'engines': [{'name': 'lean4-model+correspondence', 'path': 'lean/ harness/ gen/ check',
                 'serves_properties': [c['property_id'] for c in checks],
                 'kind_free_text': 'Lean 4 executable model + theorems (lake), translator gen/extract.py regenerating lean/Asn1/Generated.lean from /repo, Python harness running the real pyasn1 against the compiled Lean driver'}],
    'checks': checks,
    'not_applicable': na,
    'notes': 'See DESIGN.md. Known findings: known_findings.json. Exit codes: 0 held, 1 VIOLATION, 2 machinery failure.',
}
json.dump(m, open(os.path.join(HERE, 'MANIFEST.json'), 'w'), indent=1)
print('checks:', [c['property_id'] for c in checks])
