#!/usr/bin/env python3
import json, glob, sys
pat = sys.argv[1] if len(sys.argv) > 1 else '*'
for p in sorted(glob.glob('/verif/replays/%s-*.json' % pat)):
    d = json.load(open(p))
    print('==', p, d.get('kind'))
    seen = set()
    for f in d.get('failures', []):
        if f['signature'] in seen:
            continue
        seen.add(f['signature'])
        print(f['signature'], '|', f['what'][:300], '| MIN:', json.dumps(f.get('minimized'))[:800])
    for b in d.get('broken_obligations', [])[:5]:
        print('BROKEN', b[:500])
    for c in d.get('correspondence_disagreements', [])[:4]:
        print('CORR', json.dumps(c.get('minimized', c))[:800])
