#!/bin/bash
# usage: process_seed.sh <name> <outdir> <property> <check ids to try...>
# confirm the seeded change in a scratch worktree, file it under seeded/<name>, run the checks against it
name=$1; out=$2; prop=$3; shift 3
python3 /verif/tools/confirm_seed.py "$name" "$out" "$prop" 2>&1 | tail -4 || exit 1
[ -d /verif/seeded/$name ] || exit 1
caught=""; missed=""
for c in "$@"; do
  res=$(cd /verif && tools/try_mutation3.sh seeded/$name/patch.diff $c 2>&1 | tail -2)
  echo "$res" | cut -c1-230
  if echo "$res" | grep -q "VIOLATION property=$c"; then
    if echo "$res" | grep -q "no-failing-input-found"; then caught="$caught $c(no-failing-input-found)"; else caught="$caught $c"; fi
  else missed="$missed $c"; fi
done
python3 - "$name" "$caught" "$missed" <<'PY'
import json, sys
name, caught, missed = sys.argv[1:4]
p = '/verif/seeded/%s/meta.json' % name
m = json.load(open(p))
m['caught_by'] = caught.split()
m['not_caught_by'] = missed.split()
m['ran'] = ('scratch worktree of /repo HEAD: demo PASS; git apply patch.diff; pytest 1149 passed; demo FAIL; worktree removed. '
            'Checks run with tools/try_mutation3.sh (private copy of /verif; scratch worktree of /repo HEAD + VERIF_REPO), quick tier, seed 0.')
json.dump(m, open(p, 'w'), indent=1)
print('caught_by:', m['caught_by'], 'not_caught_by:', m['not_caught_by'])
PY
