#!/usr/bin/env python3
"""Commit ONE set of replacements in /repo, isolated from other builders' uncommitted edits.
usage: repo_commit.py <triples.py> <msgfile>   (triples.py defines PATCHES = [(file, old, new), ...])
The replacements are applied to a clean temporary worktree of HEAD, the pinned suite is run THERE,
the commit is created there and main is fast-forwarded to it; the same replacements are then applied
to the shared working tree (which may hold other people's uncommitted hunks) and the index refreshed."""
import os, shutil, subprocess, sys, tempfile
ns = {}
exec(open(sys.argv[1]).read(), ns)
msg = open(sys.argv[2]).read()
R = '/repo'
def sh(*a, cwd=R, check=False):
    r = subprocess.run(a, cwd=cwd, stdout=subprocess.PIPE, stderr=subprocess.STDOUT, universal_newlines=True)
    if check and r.returncode:
        sys.exit('%s failed:\n%s' % (' '.join(a), r.stdout))
    return r.stdout
for f, old, new in ns['PATCHES']:
    s = open(os.path.join(R, f)).read()
    assert s.count(old) == 1, (f, 'old text not found exactly once in the shared working tree')
wt = tempfile.mkdtemp(prefix='repo_wt_')
os.rmdir(wt)
old_head = sh('git', 'rev-parse', 'HEAD', check=True).strip()
sh('git', 'worktree', 'add', '--detach', wt, old_head, check=True)
try:
    for f, old, new in ns['PATCHES']:
        p = os.path.join(wt, f)
        s = open(p).read()
        assert s.count(old) == 1, (f, 'old text not found exactly once in HEAD')
        open(p, 'w').write(s.replace(old, new))
    out = sh('/venv/bin/python', '-m', 'pytest', '-q', '-p', 'no:cacheprovider', cwd=wt)
    tail = out.strip().splitlines()[-1]
    print(tail)
    if '1149 passed' not in tail:
        print(out[-3000:])
        sys.exit('suite not green on clean HEAD + patch; nothing committed')
    sh('git', 'commit', '-q', '-a', '-m', msg, cwd=wt, check=True)
    new_head = sh('git', 'rev-parse', 'HEAD', cwd=wt, check=True).strip()
    cur = sh('git', 'rev-parse', 'HEAD', check=True).strip()
    if cur != old_head:
        # somebody committed meanwhile: replay our commit on top
        sh('git', 'checkout', '-q', '--detach', cur, cwd=wt, check=True)
        sh('git', 'cherry-pick', new_head, cwd=wt, check=True)
        new_head = sh('git', 'rev-parse', 'HEAD', cwd=wt, check=True).strip()
        old_head = cur
    branch = sh('git', 'symbolic-ref', '--short', 'HEAD', check=True).strip()
    sh('git', 'update-ref', 'refs/heads/' + branch, new_head, old_head, check=True)
finally:
    sh('git', 'worktree', 'remove', '--force', wt)
    shutil.rmtree(wt, ignore_errors=True)
for f, old, new in ns['PATCHES']:
    p = os.path.join(R, f)
    s = open(p).read()
    open(p, 'w').write(s.replace(old, new))
sh('git', 'reset', '-q', '--', *[f for f, _, _ in ns['PATCHES']])
print(sh('git', 'log', '--oneline', '-1').strip())
