#!/usr/bin/env python3
"""Commit ONE replacement in /repo without touching other people's uncommitted hunks.
usage: repo_commit.py <triples.py> <msgfile>   (triples.py defines PATCHES = [(file, old, new), ...])
The replacement is applied to the working-tree file and, separately, to the HEAD version of the file
(staged through a temporary index), so only these hunks are committed."""
import os, subprocess, sys, tempfile
ns = {}
exec(open(sys.argv[1]).read(), ns)
msg = open(sys.argv[2]).read()
R = '/repo'
def sh(*a, **k):
    return subprocess.run(a, cwd=R, stdout=subprocess.PIPE, stderr=subprocess.STDOUT, universal_newlines=True, **k)
for f, old, new in ns['PATCHES']:
    p = os.path.join(R, f)
    s = open(p).read()
    assert s.count(old) == 1, (f, 'old text not found exactly once in working tree')
    open(p, 'w').write(s.replace(old, new))
r = sh('/venv/bin/python', '-m', 'pytest', '-q', '-p', 'no:cacheprovider')
tail = r.stdout.strip().splitlines()[-1]
print(tail)
if '1149 passed' not in tail:
    for f, old, new in ns['PATCHES']:
        p = os.path.join(R, f)
        s = open(p).read()
        open(p, 'w').write(s.replace(new, old))
    sys.exit('suite not green (possibly because of other uncommitted edits); my hunks backed out')
env = dict(os.environ, GIT_INDEX_FILE=tempfile.mktemp(prefix='idx'))
subprocess.run(['git', 'read-tree', 'HEAD'], cwd=R, env=env, check=True)
for f, old, new in ns['PATCHES']:
    head = sh('git', 'show', 'HEAD:' + f).stdout
    assert head.count(old) == 1, (f, 'old text not found exactly once in HEAD version')
    blob = subprocess.run(['git', 'hash-object', '-w', '--stdin'], cwd=R, input=head.replace(old, new),
                          stdout=subprocess.PIPE, universal_newlines=True, check=True).stdout.strip()
    mode = sh('git', 'ls-files', '-s', f).stdout.split()[0]
    subprocess.run(['git', 'update-index', '--cacheinfo', '%s,%s,%s' % (mode, blob, f)], cwd=R, env=env, check=True)
tree = subprocess.run(['git', 'write-tree'], cwd=R, env=env, stdout=subprocess.PIPE, universal_newlines=True, check=True).stdout.strip()
parent = sh('git', 'rev-parse', 'HEAD').stdout.strip()
commit = subprocess.run(['git', 'commit-tree', tree, '-p', parent, '-m', msg], cwd=R, stdout=subprocess.PIPE,
                        universal_newlines=True, check=True).stdout.strip()
subprocess.run(['git', 'update-ref', 'HEAD', commit, parent], cwd=R, check=True)
# refresh the real index for the touched files so `git status` shows only others' hunks
subprocess.run(['git', 'reset', '-q', '--'] + [f for f, _, _ in ns['PATCHES']], cwd=R)
os.unlink(env['GIT_INDEX_FILE'])
print(sh('git', 'log', '--oneline', '-1').stdout.strip())
