You are a careful adversarial engineer. In the git worktree __WT__ there is a checkout of the Python library etingof/pyasn1 (pure-Python ASN.1 types with BER/CER/DER and native codecs, including a streaming, resumable BER decoder). Your working directory for all edits is __WT__ only; write your outputs to __OUT__. Do NOT read or touch /verif, /repo or /root (they are out of bounds); do not use the network.

Here is a semantic property of the library that is supposed to hold for every input / schedule / history:

__PROPERTY__

YOUR TASK: make ONE small, realistic change to the library source under __WT__/pyasn1 (the kind of change a maintainer could plausibly make by mistake during a refactor, an optimisation or a "cleanup") that BREAKS this property, while
  (a) the code still imports and the existing test suite still passes completely: run `cd __WT__ && /venv/bin/python -m pytest -q -p no:cacheprovider` and make sure it reports `1149 passed` (do not edit, delete or skip tests);
  (b) the breakage needs something SPECIFIC to manifest — an unusual but valid input (a boundary value, a particular nesting or tagging, a particular length), a particular arrival schedule / cut point, a multi-step sequence of operations, or two cooperating sites that each look fine alone — and is NOT exposed at once by ordinary use (simple values must keep working);
  (c) the change is subtle: prefer 1–6 changed lines; no new files, no debug flags, no comments that announce the bug.
Think about where in the code the property is actually established (read the relevant modules first), pick a place the tests do not pin, and try your change against the suite; iterate until (a) holds.

DELIVERABLES in __OUT__:
  1. patch.diff — `cd __WT__ && git diff > __OUT__/patch.diff` (only your change to the library).
  2. demo.py — a small self-contained script run as `cd <checkout> && PYTHONPATH=<checkout> /venv/bin/python demo.py` that exits 0 and prints PASS on the unmodified library and exits 1 and prints FAIL (with the concrete failing input/schedule/history) on the modified one. It must test the PROPERTY as stated (e.g. a round trip, a comparison with an independently computed expectation written out in the script), not an implementation detail. Verify both behaviours yourself: run it with your change applied, then take the change out with `git diff > __OUT__/patch.diff && git apply -R __OUT__/patch.diff`, run it again, then put the change back with `git apply __OUT__/patch.diff`. Do NOT use `git stash` (the stash is shared between all worktrees of the repository and other people are working in sibling worktrees).
  3. meta.json — {"property": "<id>", "summary": "<what the change does>", "needs": "<what specific input/schedule/history is needed for it to manifest>", "files": [...], "suite": "1149 passed", "demo_unmodified": "PASS", "demo_modified": "FAIL"}.
Leave the worktree with your change applied. Finish with a short report of what you changed and why ordinary use does not expose it.
